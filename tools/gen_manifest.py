#!/venv/bin/python
"""Regenerate /verif/MANIFEST.json from the check modules that exist."""
import importlib
import json
import os
import sys

HERE = os.path.dirname(os.path.dirname(os.path.abspath(__file__)))
sys.path.insert(0, HERE)
props = [json.loads(l) for l in open(os.path.join(HERE, "properties.jsonl"))]

checks = []
na = []
for p in props:
    pid = p["id"]
    path = os.path.join(HERE, "h2mc", "checks", pid.lower() + ".py")
    if not os.path.exists(path):
        na.append({"property_id": pid, "reason": "check not built yet (work in progress; planned in DESIGN.md section 4)"})
        continue
    m = importlib.import_module("h2mc.checks." + pid.lower())
    na_reason = getattr(m, "NOT_APPLICABLE", None)
    if na_reason:
        na.append({"property_id": pid, "reason": na_reason})
        continue
    checks.append({
        "property_id": pid,
        "quick_cmd": "./check %s --tier quick" % pid,
        "thorough_cmd": "./check %s --tier thorough" % pid,
        "evidence_file": "/verif/evidence/%s.json" % pid,
        "replay_cmd_template": "./check %s --replay {path}" % pid,
        "engine": "h2mc",
        "level_claimed": {
            "category": "model_checking",
            "text": getattr(m, "LEVEL_TEXT", (m.__doc__ or "").strip().split("\n\n")[0].replace("\n", " ")),
            "design_ref": "DESIGN.md section 4, %s" % pid,
        },
        "level_note": getattr(m, "LEVEL_NOTE",
                              "Bounded-exhaustive: alphabets and depth/closure bounds are stated in the evidence file; "
                              "trusted base CPython, hpack (peer compressor), h2mc/wire.py and the reference model of the check."),
        "technique": getattr(m, "TECHNIQUE",
                             "explicit-state BFS over the real H2Connection with state matching, judged per transition by a reference model"),
    })

man = {
    "version": 1,
    "setup_cmd": "/venv/bin/python tools/selftest.py",
    "hooks": {
        "guard": "H2_VERIF",
        "enable": "no source hooks: the checks drive the public API of /repo/src/h2 directly (sys.path[0]=/repo/src)",
        "baseline_off_cmd": "cd /repo && /venv/bin/python -m pytest -q -p no:cacheprovider --timeout=900",
        "source_commits": [],
        "add_only": True,
    },
    "engines": [{
        "name": "h2mc",
        "path": "/verif/h2mc",
        "serves_properties": [c["property_id"] for c in checks],
        "kind_free_text": "hand-written explicit-state model checker for Python objects: level-synchronous BFS with "
                          "BLAKE2 state fingerprints over real H2Connection objects in product with reference models; "
                          "bounded-exhaustive input fan-outs from explored states; 16 worker processes",
    }],
    "checks": checks,
    "not_applicable": na,
    "notes": "See DESIGN.md. Known findings (genuine defects recorded, not repaired) are in known_findings.json with committed replays under findings/.",
}
with open(os.path.join(HERE, "MANIFEST.json"), "w") as fh:
    json.dump(man, fh, indent=1)
print("checks:", len(checks), "not_applicable:", len(na))
