#!/venv/bin/python
"""setup_cmd: verify interpreter, imports and codec round-trips (nothing is fetched or compiled)."""
import os
import sys
HERE = os.path.dirname(os.path.dirname(os.path.abspath(__file__)))
sys.path.insert(0, HERE)
from h2mc import env, wire, harness as H  # noqa
import hpack, hyperframe  # noqa

# codec round trip against the library's own output
c = H.new_conn(True)
c.initiate_connection()
c.send_headers(1, H.REQ, end_stream=False)
c.send_data(1, b"hello", end_stream=True, pad_length=3)
c.ping(b"12345678")
raw = c.data_to_send()
assert raw.startswith(wire.PREFACE)
fr = wire.parse(raw[len(wire.PREFACE):])
assert [f.name for f in fr] == ["SETTINGS", "HEADERS", "DATA", "PING"], fr
assert wire.ser(fr) == raw[len(wire.PREFACE):]
for f in [wire.data(1, b"x", True, 2), wire.headers(1, b"\x82", True, True, (3, 256, True), 1),
          wire.priority(1, 3, 1, False), wire.rst_stream(1, 8), wire.settings([(4, 5)]),
          wire.push_promise(1, 2, b"\x82"), wire.ping(b"a" * 8, True), wire.goaway(3, 1, b"x"),
          wire.window_update(0, 7), wire.continuation(1, b""), wire.altsvc(0, b"o", b"f")]:
    g = wire.parse(f.serialize())[0]
    assert g.serialize() == f.serialize()
print("selftest ok: h2 from", os.path.dirname(H.h2.__file__), "python", sys.version.split()[0])
