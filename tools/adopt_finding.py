#!/venv/bin/python
"""Developer tool (never run by a check): record a triaged genuine defect.

  adopt_finding.py <replay.json> <finding-id> "<what fails>" [key1,key2,...]

Copies the replay under findings/ and adds an *open* entry to
known_findings.json whose match pattern is the replay's signature restricted
to the given keys (default: all keys).
"""
import json, os, shutil, sys
HERE = os.path.dirname(os.path.dirname(os.path.abspath(__file__)))
src, fid, what = sys.argv[1:4]
keys = sys.argv[4].split(",") if len(sys.argv) > 4 else None
rec = json.load(open(src))
sig = rec["sig"]
match = {k: sig[k] for k in (keys or sorted(sig))}
dst = os.path.join("findings", fid + ".json")
shutil.copy(src, os.path.join(HERE, dst))
kf = os.path.join(HERE, "known_findings.json")
data = json.load(open(kf)) if os.path.exists(kf) else {"findings": []}
data["findings"] = [f for f in data["findings"] if f.get("id") != fid]
data["findings"].append({"id": fid, "property": rec["property"], "status": "open",
                         "match": match, "what": what, "replay": dst})
json.dump(data, open(kf, "w"), indent=1)
print("recorded", fid, match)
