#!/venv/bin/python
"""Developer tool (never run by a check): seeded property-breaking changes.

  tools/seeded.py intake <srcdir> <name> <Cxx> ["what it needs to manifest"]
      <srcdir> holds patch.diff, demo.py and optionally notes.md as written by an
      independent sub-agent.  Confirms in a scratch copy of /repo (outside /repo
      and /verif) that (a) the patch applies, (b) the repository's own suite has
      exactly the baseline failures with it, (c) the demo exits 0 on the clean
      copy and non-zero on the changed copy.  Only then is it stored as
      /verif/seeded/<name>/{patch.diff,demo.py,notes.md,meta.json}.

  tools/seeded.py run [--tier quick|thorough] [--checks Cxx,Cyy] [-j N] [name ...]
      Applies each stored change to a scratch copy and runs the named checks
      (default: the property it breaks) against the copy with VERIF_H2_SRC /
      VERIF_OUT_DIR, so neither /repo nor /verif/evidence is touched.  Records
      the outcome in seeded/<name>/result.json and rewrites seeded/RESULTS.md.

Equivalent by hand: git -C /repo apply seeded/<name>/patch.diff; ./check Cxx --tier quick;
git -C /repo checkout -- .   (the copy route is used here so that several changes can be
tried at once and a background run on /repo is never disturbed).
"""
import concurrent.futures
import glob
import json
import os
import shutil
import subprocess
import sys
import tempfile
import time

HERE = os.path.dirname(os.path.dirname(os.path.abspath(__file__)))
SEEDED = os.path.join(HERE, "seeded")
SCRATCH_ROOT = "/dev/shm" if os.path.isdir("/dev/shm") else "/var/tmp"
IGN = shutil.ignore_patterns(".git", "__pycache__", ".hypothesis", "*.egg-info", ".tox", ".pytest_cache")


def _head(path):
    return subprocess.run(["git", "-C", path, "rev-parse", "--short", "HEAD"], stdout=subprocess.PIPE, text=True).stdout.strip()


VERIF_COMMIT = _head(HERE)      # (the working tree may be ahead of it by uncommitted edits: the last commit is what is recorded)
REPO_COMMIT = _head("/repo")


def baseline_failures():
    b = json.load(open("/root/.vp/BASELINE.json"))
    out = set()
    for t in b.get("always_fail", []):
        mod, rest = t.split("::", 1)
        parts = mod.split(".")
        out.add("/".join(parts[:2]) + ".py::" + "::".join(parts[2:] + [rest]))
    return out


def run_suite(copy):
    env = dict(os.environ, PYTHONPATH=os.path.join(copy, "src"), PYTHONDONTWRITEBYTECODE="1")
    p = subprocess.run(["/venv/bin/python", "-m", "pytest", "-q", "-p", "no:cacheprovider", "--timeout=900", "-rf"],
                       cwd=copy, env=env, stdout=subprocess.PIPE, stderr=subprocess.STDOUT, text=True)
    failed = set(l[len("FAILED "):].split(" - ")[0].strip() for l in p.stdout.splitlines() if l.startswith("FAILED "))
    last = p.stdout.splitlines()[-1] if p.stdout else ""
    return failed, last.strip("= ")


def run_demo(copy, demo):
    env = dict(os.environ, PYTHONPATH=os.path.join(copy, "src"), PYTHONDONTWRITEBYTECODE="1", PYTHONHASHSEED="0")
    p = subprocess.run(["/venv/bin/python", demo], cwd=copy, env=env, stdout=subprocess.PIPE, stderr=subprocess.STDOUT,
                       text=True, timeout=600)
    return p.returncode, p.stdout[-600:]


def make_copy(patch=None):
    scratch = tempfile.mkdtemp(prefix="h2seed.", dir=SCRATCH_ROOT)
    copy = os.path.join(scratch, "repo")
    shutil.copytree("/repo", copy, ignore=IGN)
    if patch:
        subprocess.run(["patch", "-p1", "-s", "-i", patch], cwd=copy, check=True)
    chk = subprocess.run(["/venv/bin/python", "-c", "import h2; print(h2.__file__)"], cwd=copy,
                         env=dict(os.environ, PYTHONPATH=os.path.join(copy, "src")), stdout=subprocess.PIPE, text=True)
    assert chk.stdout.strip().startswith(copy), chk.stdout
    return scratch, copy


def intake(src, name, prop, needs=""):
    patch = os.path.join(src, "patch.diff")
    demo = os.path.join(src, "demo.py")
    assert os.path.isfile(patch) and os.path.isfile(demo), "need patch.diff and demo.py in %s" % src
    touched = [l[6:].strip() for l in open(patch) if l.startswith("+++ b/")]
    assert touched and all(t.startswith("src/h2/") for t in touched), "patch must touch only src/h2: %s" % touched
    base = baseline_failures()
    ran = []
    s0, clean = make_copy()
    s1, mut = make_copy(patch)
    try:
        rc0, out0 = run_demo(clean, demo)
        ran.append("demo on clean copy: exit %d" % rc0)
        rc1, out1 = run_demo(mut, demo)
        ran.append("demo on changed copy: exit %d" % rc1)
        failed, last = run_suite(mut)
        ran.append("repository suite on changed copy: %s; failures %s baseline" % (last, "==" if failed == base else "!="))
        ok = rc0 == 0 and rc1 != 0 and failed == base
        print("%s: clean demo exit=%d, changed demo exit=%d, suite %s (%s)" % (
            name, rc0, rc1, "same as baseline" if failed == base else "DIFFERS %s" % sorted(failed ^ base), last))
        if not ok:
            print("  NOT KEPT"); print("  clean out:", out0[-300:]); print("  changed out:", out1[-300:])
            return 1
    finally:
        shutil.rmtree(s0, ignore_errors=True)
        shutil.rmtree(s1, ignore_errors=True)
    dst = os.path.join(SEEDED, name)
    os.makedirs(dst, exist_ok=True)
    shutil.copy(patch, os.path.join(dst, "patch.diff"))
    shutil.copy(demo, os.path.join(dst, "demo.py"))
    notes = os.path.join(src, "notes.md")
    if os.path.isfile(notes):
        shutil.copy(notes, os.path.join(dst, "notes.md"))
    meta = {"name": name, "property": prop, "files_touched": touched,
            "needs_to_manifest": needs or "see notes.md",
            "origin": "independent sub-agent given only the property text and a scratch worktree",
            "confirmed": ran, "confirmed_at_repo_commit": subprocess.run(
                ["git", "-C", "/repo", "rev-parse", "--short", "HEAD"], stdout=subprocess.PIPE, text=True).stdout.strip()}
    json.dump(meta, open(os.path.join(dst, "meta.json"), "w"), indent=1)
    print("  kept as seeded/%s" % name)
    return 0


def run_one(name, checks, tier):
    d = os.path.join(SEEDED, name)
    meta = json.load(open(os.path.join(d, "meta.json")))
    checks = checks or [meta["property"]]
    scratch, copy = make_copy(os.path.join(d, "patch.diff"))
    res = {}
    try:
        for c in checks:
            env = dict(os.environ, VERIF_H2_SRC=os.path.join(copy, "src"), VERIF_OUT_DIR=os.path.join(scratch, "out"),
                       VERIF_SEED=os.environ.get("VERIF_SEED", "1"))
            t0 = time.time()
            p = subprocess.run([os.path.join(HERE, "check"), c, "--tier", tier], env=env, stdout=subprocess.PIPE,
                               stderr=subprocess.STDOUT, text=True)
            lines = p.stdout.splitlines()
            v = [i for i, l in enumerate(lines) if l.startswith("VIOLATION ")]
            first = " / ".join(x.strip() for x in lines[v[0] + 1:v[0] + 4])[:500] if v else ""
            if p.returncode not in (0, 1):
                first = "INTERNAL: " + " | ".join(lines[-4:])[:500]
            res[c] = {"tier": tier, "exit": p.returncode, "violations": len(v), "first": first, "secs": round(time.time() - t0),
                      "verif_commit": VERIF_COMMIT, "repo_commit": REPO_COMMIT}
            print("%s %s[%s]: exit=%d violations=%d %ds %s" % (name, c, tier, p.returncode, len(v), time.time() - t0, first[:160]), flush=True)
    finally:
        shutil.rmtree(scratch, ignore_errors=True)
    rp = os.path.join(d, "result.json")
    old = json.load(open(rp)) if os.path.isfile(rp) else {}
    for c, r in res.items():
        old["%s:%s" % (c, tier)] = r
    json.dump(old, open(rp, "w"), indent=1, sort_keys=True)
    return name, res


def write_results():
    rows = []
    for d in sorted(glob.glob(os.path.join(SEEDED, "*", "meta.json"))):
        meta = json.load(open(d))
        rp = os.path.join(os.path.dirname(d), "result.json")
        res = json.load(open(rp)) if os.path.isfile(rp) else {}
        rows.append((meta, res))
    with open(os.path.join(SEEDED, "RESULTS.md"), "w") as fh:
        fh.write("# Seeded changes (written by independent sub-agents) and which checks report them\n\n"
                 "Written by `tools/seeded.py run`. Each change passes the repository's own suite and comes with a demo that\n"
                 "fails only with the change. `exit=1` = the check reports a VIOLATION on the changed copy.\n\n"
                 "| change | breaks | detected by | not detected by |\n|---|---|---|---|\n")
        for meta, res in rows:
            det = sorted(k for k, r in res.items() if r["exit"] == 1)
            nd = sorted(k for k, r in res.items() if r["exit"] != 1)
            fh.write("| %s | %s | %s | %s |\n" % (meta["name"], meta["property"], ", ".join(det) or "-", ", ".join(nd) or "-"))
        fh.write("\n")
        for meta, res in rows:
            fh.write("## %s (%s)\n\n%s\n\n" % (meta["name"], meta["property"], meta.get("needs_to_manifest", "")))
            for k in sorted(res):
                r = res[k]
                fh.write("* `%s`: exit=%d, %d VIOLATION line(s), %ss%s%s\n" % (
                    k, r["exit"], r["violations"], r["secs"], (" [/verif %s]" % r["verif_commit"]) if r.get("verif_commit") else "",
                    (" - `%s`" % r["first"].replace("`", "'")) if r["first"] else ""))
            fh.write("\n")


def main(argv):
    if argv and argv[0] == "intake":
        return intake(*argv[1:5])
    if argv and argv[0] == "results":
        write_results(); return 0
    assert argv and argv[0] == "run", __doc__
    argv = argv[1:]
    tier, checks, jobs, names = "quick", None, 1, []
    while argv:
        a = argv.pop(0)
        if a == "--tier": tier = argv.pop(0)
        elif a == "--checks": checks = argv.pop(0).split(",")
        elif a == "-j": jobs = int(argv.pop(0))
        else: names.append(a)
    names = names or sorted(os.path.basename(os.path.dirname(p)) for p in glob.glob(os.path.join(SEEDED, "*", "meta.json")))
    with concurrent.futures.ThreadPoolExecutor(jobs) as ex:
        out = list(ex.map(lambda n: run_one(n, checks, tier), names))
    write_results()
    missed = [n for n, res in out if not any(r["exit"] == 1 for r in res.values())]
    print("not detected:", missed)
    return 0


if __name__ == "__main__":
    sys.exit(main(sys.argv[1:]))
