#!/bin/sh
# Runs the repository's test suite and compares the set of failures with the
# 11 always-failing tests of /root/.vp/BASELINE.json. Exit 0 iff identical.
cd /repo || exit 2
/venv/bin/python -m pytest -q -p no:cacheprovider --timeout=900 -rf 2>&1 | grep '^FAILED' | sed 's/ - .*//' | sort > /tmp/suite_failed.$$
/venv/bin/python - "$$" <<'PY'
import json,sys
b=json.load(open('/root/.vp/BASELINE.json'))
exp=set()
for t in b['always_fail']:
    mod,rest=t.split('::',1) if '::' in t else (t,'')
    cls=mod.rsplit('.',1)
    # test.test_x.Class::name -> test/test_x.py::Class::name
    parts=mod.split('.')
    exp.add('/'.join(parts[:2])+'.py::'+'::'.join(parts[2:]+[rest]))
got=set(l.strip()[len('FAILED '):] for l in open('/tmp/suite_failed.%s'%sys.argv[1]))
print('failed now:',len(got),'baseline always_fail:',len(exp))
if got!=exp:
    print('NEW FAILURES:',sorted(got-exp)); print('NOW PASSING:',sorted(exp-got)); sys.exit(1)
print('suite matches baseline')
PY
rc=$?; rm -f /tmp/suite_failed.$$; exit $rc
