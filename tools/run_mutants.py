#!/venv/bin/python
"""Developer tool (never run by a check): detection demonstrations.

  tools/run_mutants.py [mutants/<name>.patch ...]      (default: all)

For each patch under /verif/mutants: copy /repo (without .git) to a scratch
directory outside /repo and /verif, apply the patch, run the repository's own
test suite on the copy (the mutant must still pass it: same failures as the
baseline), run the quick tier of the checks named in the patch header against
the copy (VERIF_H2_SRC, evidence/replays redirected with VERIF_OUT_DIR so the
evidence of the tree under test is never touched), record the outcome in
mutants/RESULTS.md, and delete the copy.
"""
import glob
import json
import os
import re
import shutil
import subprocess
import sys
import tempfile
import time

HERE = os.path.dirname(os.path.dirname(os.path.abspath(__file__)))
SCRATCH_ROOT = "/dev/shm" if os.path.isdir("/dev/shm") else "/var/tmp"


def baseline_failures():
    b = json.load(open("/root/.vp/BASELINE.json"))
    out = set()
    for t in b.get("always_fail", []):
        mod, rest = t.split("::", 1)
        parts = mod.split(".")
        out.add("/".join(parts[:2]) + ".py::" + "::".join(parts[2:] + [rest]))
    return out


def run_suite(copy):
    env = dict(os.environ, PYTHONPATH=os.path.join(copy, "src"), PYTHONDONTWRITEBYTECODE="1")
    p = subprocess.run(["/venv/bin/python", "-m", "pytest", "-q", "-p", "no:cacheprovider", "--timeout=900", "-rf"],
                       cwd=copy, env=env, stdout=subprocess.PIPE, stderr=subprocess.STDOUT, text=True)
    failed = set(l[len("FAILED "):].split(" - ")[0].strip() for l in p.stdout.splitlines() if l.startswith("FAILED "))
    chk = subprocess.run(["/venv/bin/python", "-c", "import h2; print(h2.__file__)"], cwd=copy, env=env, stdout=subprocess.PIPE, text=True)
    assert chk.stdout.strip().startswith(copy), "suite would not test the copy: %s" % chk.stdout
    return failed, p.stdout.splitlines()[-1] if p.stdout else ""


def main(argv):
    patches = [os.path.abspath(a) for a in argv] or sorted(glob.glob(os.path.join(HERE, "mutants", "*.patch")))
    base = baseline_failures()
    rows = []
    for patch in patches:
        name = os.path.basename(patch)[:-len(".patch")]
        head = open(patch).read().split("---", 1)[0]
        what = re.search(r"# what: (.*)", head).group(1)
        checks = re.search(r"# checks: (.*)", head).group(1).split()
        scratch = tempfile.mkdtemp(prefix="h2mut.", dir=SCRATCH_ROOT)
        copy = os.path.join(scratch, "repo")
        try:
            shutil.copytree("/repo", copy, ignore=shutil.ignore_patterns(".git", "__pycache__", ".hypothesis", "*.egg-info", ".tox"))
            subprocess.run(["patch", "-p1", "-s", "-i", patch], cwd=copy, check=True)
            t0 = time.time()
            failed, last = run_suite(copy)
            suite_ok = failed == base
            suite = "passes (same %d baseline failures; %s)" % (len(base), last.strip("= ")) if suite_ok else \
                "DIFFERS: new failures %s" % sorted(failed - base)
            print("%s: suite %s [%.0fs]" % (name, suite, time.time() - t0), flush=True)
            res = []
            for c in checks:
                env = dict(os.environ, VERIF_H2_SRC=os.path.join(copy, "src"), VERIF_OUT_DIR=os.path.join(scratch, "out"), VERIF_SEED="1")
                p = subprocess.run([os.path.join(HERE, "check"), c, "--tier", "quick"], env=env, stdout=subprocess.PIPE, stderr=subprocess.STDOUT, text=True)
                lines = p.stdout.splitlines()
                v = [i for i, l in enumerate(lines) if l.startswith("VIOLATION ")]
                first = ""
                if v:
                    first = " / ".join(x.strip() for x in lines[v[0] + 1:v[0] + 4])[:420]
                res.append((c, p.returncode, len(v), first))
                print("  %s exit=%d violations=%d %s" % (c, p.returncode, len(v), first[:200]), flush=True)
            rows.append((name, what, suite, res))
        finally:
            shutil.rmtree(scratch, ignore_errors=True)
    with open(os.path.join(HERE, "mutants", "RESULTS.md"), "w") as fh:
        fh.write("# Detection demonstrations\n\nWritten by `tools/run_mutants.py` (quick tier, VERIF_SEED=1). Each patch is applied to a scratch copy of /repo;\n"
                 "the repository's own suite is run on the copy first. `exit=1` with VIOLATION lines = detected.\n\n")
        for name, what, suite, res in rows:
            fh.write("## %s\n\n%s\n\n* repository test suite on the mutant: %s\n" % (name, what, suite))
            for c, rc, nv, first in res:
                fh.write("* `./check %s --tier quick`: exit=%d, %d VIOLATION line(s)%s\n" % (
                    c, rc, nv, (" - first: `%s`" % first.replace("`", "'")) if first else " - NOT detected"))
            fh.write("\n")
    bad = [n for n, _, s, res in rows if not any(rc == 1 for _, rc, _, _ in res)]
    print("undetected:", bad)
    return 1 if bad else 0


if __name__ == "__main__":
    sys.exit(main(sys.argv[1:]))
