#!/bin/sh
# tools/run_tiers.sh <tier> <Cxx>...   runs the given checks one after another,
# one summary line each (id, exit status, seconds, VIOLATION / KNOWN-FINDING counts).
tier="$1"; shift
for id in "$@"; do
  t0=$(date +%s)
  ./check "$id" --tier "$tier" > "/tmp/tier_${tier}_${id}.log" 2>&1
  rc=$?
  t1=$(date +%s)
  v=$(grep -c '^VIOLATION' "/tmp/tier_${tier}_${id}.log")
  k=$(grep -c '^KNOWN-FINDING' "/tmp/tier_${tier}_${id}.log")
  echo "$id tier=$tier exit=$rc secs=$((t1-t0)) violations=$v known=$k"
  if [ "$rc" != 0 ]; then grep -E '^VIOLATION|Traceback|Error' "/tmp/tier_${tier}_${id}.log" | head -20; tail -5 "/tmp/tier_${tier}_${id}.log"; fi
done
