"""Reference models and monitors (written from RFC 7540 / 7838 / 8441 and the
property statements, independent of the library's transition tables)."""
