"""RFC 7540 section 8.1.2 as a predicate on (block type, decoded header list),
plus the outbound normalisation the library documents.  Written from the RFC
text and the statements of properties C14/C15, not from h2.utilities.

Block types: 'request', 'push' (request carried by PUSH_PROMISE), 'response',
'info' (1xx), 'trailers'.
"""

WHITESPACE = b" \t\n\r\x0b\x0c"
CONNECTION_SPECIFIC = (b"connection", b"proxy-connection", b"keep-alive",
                       b"transfer-encoding", b"upgrade")
KNOWN_PSEUDO = (b":method", b":scheme", b":authority", b":path", b":status",
                b":protocol")
REQUEST_PSEUDO = (b":method", b":scheme", b":authority", b":path", b":protocol")
SECURE = (b"authorization", b"proxy-authorization")

UNSPECIFIED = "unspecified"


def _b(x):
    return x.encode("utf-8") if isinstance(x, str) else bytes(x)


def to_bytes(headers):
    return [(_b(h[0]), _b(h[1])) for h in headers]


def is_informational(headers):
    """Leading pseudo-header block has :status 1xx."""
    for n, v in headers:
        n = _b(n)
        if not n.startswith(b":"):
            return False
        if n == b":status":
            return _b(v).startswith(b"1")
    return False


def conformant(block_type, headers):
    """-> (True, None) | (False, reason) | (UNSPECIFIED, reason)"""
    hs = to_bytes(headers)
    seen_pseudo = []
    seen_regular = False
    method = None
    authority = None
    hosts = []
    for n, v in hs:
        if not n:
            return False, "empty header name"
        if any(65 <= c <= 90 for c in n):
            return False, "uppercase in header name"
        if n[:1] in [bytes([c]) for c in WHITESPACE] or n[-1:] in [bytes([c]) for c in WHITESPACE]:
            return False, "whitespace around header name"
        if v and (v[0] in WHITESPACE or v[-1] in WHITESPACE):
            return False, "whitespace around header value"
        if n in CONNECTION_SPECIFIC:
            return False, "connection-specific header field"
        if n == b"te":
            if v != b"trailers":
                if v.lower() == b"trailers":
                    return UNSPECIFIED, "TE value differs from 'trailers' only in case"
                return False, "TE other than trailers"
        if n.startswith(b":"):
            if n in seen_pseudo:
                return False, "duplicate pseudo-header"
            seen_pseudo.append(n)
            if seen_regular:
                return False, "pseudo-header after regular field"
            if n not in KNOWN_PSEUDO:
                return False, "unknown pseudo-header"
            if n == b":method":
                method = v
            if n == b":authority":
                authority = v
        else:
            seen_regular = True
            if n == b"host":
                hosts.append(v)
    if block_type == "trailers":
        if seen_pseudo:
            return False, "pseudo-header in trailers"
        return True, None
    if block_type in ("response", "info"):
        if b":status" not in seen_pseudo:
            return False, "response without :status"
        if any(p in REQUEST_PSEUDO for p in seen_pseudo):
            return False, "request pseudo-header in response"
        return True, None
    # request / push
    if b":status" in seen_pseudo:
        return False, "response pseudo-header in request"
    if method == b"CONNECT" and b":protocol" not in seen_pseudo:
        return UNSPECIFIED, "plain CONNECT requests (RFC 7540 8.3) are outside the stated rules"
    # (an extended CONNECT, RFC 8441, is an ordinary request as far as these rules go: :protocol is a request
    # pseudo-header that is allowed with - and only with - :method CONNECT, wherever among the pseudo-headers it stands)
    for req in (b":method", b":scheme", b":path"):
        if req not in seen_pseudo:
            return False, "request without %s" % req.decode()
    if b":protocol" in seen_pseudo and method != b"CONNECT":
        return False, ":protocol outside CONNECT"
    if len(hosts) > 1:
        if authority is not None and any(h != authority for h in hosts):
            return False, ":authority and one of several Host fields disagree"
        return UNSPECIFIED, "duplicate Host fields"
    if authority is None and not hosts:
        return False, "request with neither :authority nor Host"
    if authority is not None and hosts and hosts[0] != authority:
        return False, ":authority and Host disagree"
    for n, v in hs:
        if n == b":path" and not v:
            return False, "empty :path"
    return True, None


def normalise_outbound(headers):
    """The documented outbound normalisation: lowercase + trim names, trim
    values, drop connection-specific fields, mark authorization,
    proxy-authorization and short cookies never-indexed.
    -> list of (name, value, never_indexed)"""
    out = []
    for h in headers:
        n = _b(h[0]).lower().strip(WHITESPACE)
        v = _b(h[1]).strip(WHITESPACE)
        if n in CONNECTION_SPECIFIC:
            continue
        ni = bool(getattr(h, "indexable", True) is False)
        if n in SECURE or (n == b"cookie" and len(v) < 20):
            ni = True
        out.append((n, v, ni))
    return out


def outbound_rules_only(block_type, headers):
    """What outbound *validation alone* promises (normalisation off): the
    message-structure rules (TE, connection-specific, pseudo-headers,
    authority/host, :path) but not case/whitespace repair."""
    hs = to_bytes(headers)
    relaxed = []
    for n, v in hs:
        # neutralise the case / whitespace rules, keep everything else
        relaxed.append((n, v))
    seen_pseudo = []
    seen_regular = False
    method = None
    authority = None
    hosts = []
    for n, v in relaxed:
        if n in CONNECTION_SPECIFIC:
            return False, "connection-specific header field"
        if n == b"te" and v.lower() != b"trailers":
            return False, "TE other than trailers"
        if n.startswith(b":"):
            if n in seen_pseudo:
                return False, "duplicate pseudo-header"
            seen_pseudo.append(n)
            if seen_regular:
                return False, "pseudo-header after regular field"
            if n not in KNOWN_PSEUDO:
                return False, "unknown pseudo-header"
            if n == b":method":
                method = v
            if n == b":authority":
                authority = v
        else:
            seen_regular = True
            if n == b"host":
                hosts.append(v)
    if block_type == "trailers":
        return (False, "pseudo-header in trailers") if seen_pseudo else (True, None)
    if block_type in ("response", "info"):
        if b":status" not in seen_pseudo:
            return False, "response without :status"
        if any(p in REQUEST_PSEUDO for p in seen_pseudo):
            return False, "request pseudo-header in response"
        return True, None
    if b":status" in seen_pseudo:
        return False, "response pseudo-header in request"
    if method == b"CONNECT" and b":protocol" not in seen_pseudo:
        return UNSPECIFIED, "CONNECT"
    for req in (b":method", b":scheme", b":path"):
        if req not in seen_pseudo:
            return False, "request without %s" % req.decode()
    if b":protocol" in seen_pseudo and method != b"CONNECT":
        return False, ":protocol outside CONNECT"
    if len(hosts) > 1:
        if authority is not None and any(h != authority for h in hosts):
            return False, ":authority and one of several Host fields disagree"
        return UNSPECIFIED, "duplicate Host fields"
    if authority is None and not hosts:
        return False, "request with neither :authority nor Host"
    if authority is not None and hosts and hosts[-1] != authority:
        return False, ":authority and Host disagree"
    for n, v in relaxed:
        if n == b":path" and not v:
            return False, "empty :path"
    return True, None


def expected_outbound(normalize, validate, block_type, headers):
    """-> ('refused', reason) | ('emit', [(name, value, never_indexed)]) |
    (UNSPECIFIED, reason)"""
    if normalize:
        hs = normalise_outbound(headers)
    else:
        hs = [(_b(h[0]), _b(h[1]), getattr(h, "indexable", True) is False) for h in headers]
    plain = [(n, v) for n, v, _ in hs]
    if validate:
        ok, why = outbound_rules_only(block_type, plain)
        if ok is UNSPECIFIED:
            return UNSPECIFIED, why
        if not ok:
            return "refused", why
        if normalize:
            # with both options on the emission must be fully conformant; if
            # the repaired list still is not, it must have been refused
            ok2, why2 = conformant(block_type, plain)
            if ok2 is UNSPECIFIED:
                return UNSPECIFIED, why2
            if not ok2:
                return "refused", why2
    return "emit", hs


def expected_inbound_delivery(headers, normalize, encoding):
    """What a delivered (accepted) block must look like: the decoded list,
    cookies joined into one trailing never-indexed field when normalisation
    is on, text when header_encoding is set.  -> list of (name, value)"""
    hs = to_bytes(headers)
    if normalize:
        cookies = [v for n, v in hs if n == b"cookie"]
        rest = [(n, v) for n, v in hs if n != b"cookie"]
        if cookies:
            rest.append((b"cookie", b"; ".join(cookies)))
        hs = rest
    if encoding:
        hs = [(n.decode(encoding), v.decode(encoding)) for n, v in hs]
    return hs
