"""RFC 7540 section 5.1 stream life-cycle model for one endpoint.

Driven by *observed* facts: frames this endpoint really put on the wire and
peer frames it really accepted.  Written from the RFC text, not from the
library's transition table.
"""

IDLE, RES_LOCAL, RES_REMOTE, OPEN, HC_LOCAL, HC_REMOTE, CLOSED = (
    "idle", "reserved_local", "reserved_remote", "open", "hc_local",
    "hc_remote", "closed")

LIVE_COUNTED = (OPEN, HC_LOCAL, HC_REMOTE)   # RFC 7540 5.1.2


class StreamM:
    __slots__ = ("sid", "state", "closed_by", "local_init", "pushed", "sent",
                 "recv", "forgotten", "sent_info", "recv_info", "authority",
                 "method")

    def __init__(self, sid, local_init, pushed=False):
        self.sid = sid
        self.state = IDLE
        self.closed_by = None     # 'es' | 'send_rst' | 'recv_rst'
        self.local_init = local_init
        self.pushed = pushed
        self.sent = "none"        # none | final | trailers
        self.recv = "none"
        self.sent_info = 0
        self.recv_info = 0
        self.forgotten = 0        # 0 no, 1 maybe (library may have tidied), 2 yes
        self.authority = None
        self.method = None

    def key(self):
        return (self.sid, self.state, self.closed_by, self.local_init,
                self.pushed, self.sent, self.recv, self.forgotten,
                min(self.sent_info, 1), min(self.recv_info, 1), self.authority,
                self.method)

    def __getstate__(self):
        return {k: getattr(self, k) for k in self.__slots__}

    def __setstate__(self, d):
        for k, v in d.items():
            setattr(self, k, v)


class ConnM:
    def __init__(self, client):
        self.client = client
        self.streams = {}
        self.hi_local = 0
        self.hi_peer = 0
        self.closed = False

    def key(self):
        return (self.client, self.hi_local, self.hi_peer, self.closed,
                tuple(self.streams[k].key() for k in sorted(self.streams)))

    # ---------------------------------------------------------- queries
    def is_local_id(self, sid):
        return sid != 0 and (sid % 2 == 1) == self.client

    def status(self, sid):
        """zero | live | closed | maybe_forgotten | forgotten | unused_high |
        unused_low"""
        if sid == 0:
            return "zero"
        s = self.streams.get(sid)
        if s is None:
            hi = self.hi_local if self.is_local_id(sid) else self.hi_peer
            return "unused_high" if sid > hi else "unused_low"
        if s.state != CLOSED:
            return "live"
        return ("closed", "maybe_forgotten", "forgotten")[s.forgotten]

    def get(self, sid):
        return self.streams.get(sid)

    def count_open(self, local_init):
        return sum(1 for s in self.streams.values()
                   if s.local_init == local_init and s.state in LIVE_COUNTED)

    # ---------------------------------------------------------- updates
    def _new(self, sid, local_init, pushed=False):
        s = StreamM(sid, local_init, pushed)
        self.streams[sid] = s
        if local_init:
            self.hi_local = max(self.hi_local, sid)
        else:
            self.hi_peer = max(self.hi_peer, sid)
        return s

    def _end_local(self, s):
        if s.state == OPEN:
            s.state = HC_LOCAL
        elif s.state == HC_REMOTE:
            s.state = CLOSED
            s.closed_by = "es"

    def _end_remote(self, s):
        if s.state == OPEN:
            s.state = HC_REMOTE
        elif s.state == HC_LOCAL:
            s.state = CLOSED
            s.closed_by = "es"

    def sent_headers(self, sid, es, info=False):
        s = self.streams.get(sid)
        if s is None:
            s = self._new(sid, True)
        if s.state == IDLE:
            s.state = OPEN
            s.sent = "final"
        elif s.state == RES_LOCAL:
            s.state = HC_REMOTE
            if info:
                s.sent_info += 1
            else:
                s.sent = "final"
        elif info:
            s.sent_info += 1
        elif s.sent == "none":
            s.sent = "final"
        else:
            s.sent = "trailers"
        if es:
            self._end_local(s)
        return s

    def recv_headers(self, sid, es, info=False):
        s = self.streams.get(sid)
        if s is None:
            s = self._new(sid, False)
        if s.state == IDLE:
            s.state = OPEN
            s.recv = "final"
        elif s.state == RES_REMOTE:
            s.state = HC_LOCAL
            if info:
                s.recv_info += 1
            else:
                s.recv = "final"
        elif info:
            s.recv_info += 1
        elif s.recv == "none":
            s.recv = "final"
        else:
            s.recv = "trailers"
        if es:
            self._end_remote(s)
        return s

    def sent_data(self, sid, es):
        s = self.streams.get(sid)
        if s is not None and es:
            self._end_local(s)

    def recv_data(self, sid, es):
        s = self.streams.get(sid)
        if s is not None and es:
            self._end_remote(s)

    def sent_rst(self, sid):
        s = self.streams.get(sid)
        if s is not None and s.state != CLOSED:
            s.state = CLOSED
            s.closed_by = "send_rst"

    def recv_rst(self, sid):
        s = self.streams.get(sid)
        if s is not None and s.state != CLOSED:
            s.state = CLOSED
            s.closed_by = "recv_rst"

    def sent_push(self, parent, promised):
        s = self._new(promised, True, pushed=True)
        s.state = RES_LOCAL
        s.recv = "final"          # the promised request counts as received
        return s

    def recv_push(self, parent, promised):
        s = self._new(promised, False, pushed=True)
        s.state = RES_REMOTE
        s.sent = "final"          # the promised request counts as sent
        return s

    def upgrade(self):
        """h2c: stream 1 half-closed (local for the client, remote for the
        server)."""
        s = self._new(1, self.client)
        if self.client:
            s.state = HC_LOCAL
            s.sent = "final"
        else:
            s.state = HC_REMOTE
            s.recv = "final"
        return s

    def cleanup(self):
        for s in self.streams.values():
            if s.state == CLOSED:
                s.forgotten = 2

    def maybe_cleanup(self):
        for s in self.streams.values():
            if s.state == CLOSED and s.forgotten == 0:
                s.forgotten = 1
