"""RFC 7540 section 5.1 stream life-cycle model for one endpoint.

Driven by *observed* facts: frames this endpoint really put on the wire and
peer frames it really accepted.  Written from the RFC text, not from the
library's transition table.
"""

IDLE, RES_LOCAL, RES_REMOTE, OPEN, HC_LOCAL, HC_REMOTE, CLOSED = (
    "idle", "reserved_local", "reserved_remote", "open", "hc_local",
    "hc_remote", "closed")

LIVE_COUNTED = (OPEN, HC_LOCAL, HC_REMOTE)   # RFC 7540 5.1.2


class StreamM:
    __slots__ = ("sid", "state", "closed_by", "local_init", "pushed", "sent",
                 "recv", "forgotten", "sent_info", "recv_info", "authority",
                 "method")

    def __init__(self, sid, local_init, pushed=False):
        self.sid = sid
        self.state = IDLE
        self.closed_by = None     # 'es' | 'send_rst' | 'recv_rst'
        self.local_init = local_init
        self.pushed = pushed
        self.sent = "none"        # none | final | trailers
        self.recv = "none"
        self.sent_info = 0
        self.recv_info = 0
        self.forgotten = 0        # 0 no, 1 maybe (library may have tidied), 2 yes
        self.authority = None
        self.method = None

    def key(self):
        return (self.sid, self.state, self.closed_by, self.local_init,
                self.pushed, self.sent, self.recv, self.forgotten,
                min(self.sent_info, 1), min(self.recv_info, 1), self.authority,
                self.method)

    def __getstate__(self):
        return {k: getattr(self, k) for k in self.__slots__}

    def __setstate__(self, d):
        for k, v in d.items():
            setattr(self, k, v)


class ConnM:
    def __init__(self, client):
        self.client = client
        self.streams = {}
        self.hi_local = 0
        self.hi_peer = 0
        self.closed = False

    def key(self):
        return (self.client, self.hi_local, self.hi_peer, self.closed,
                tuple(self.streams[k].key() for k in sorted(self.streams)))

    # ---------------------------------------------------------- queries
    def is_local_id(self, sid):
        return sid != 0 and (sid % 2 == 1) == self.client

    def status(self, sid):
        """zero | live | closed | maybe_forgotten | forgotten | unused_high |
        unused_low"""
        if sid == 0:
            return "zero"
        s = self.streams.get(sid)
        if s is None:
            hi = self.hi_local if self.is_local_id(sid) else self.hi_peer
            return "unused_high" if sid > hi else "unused_low"
        if s.state != CLOSED:
            return "live"
        return ("closed", "maybe_forgotten", "forgotten")[s.forgotten]

    def get(self, sid):
        return self.streams.get(sid)

    def count_open(self, local_init):
        return sum(1 for s in self.streams.values()
                   if s.local_init == local_init and s.state in LIVE_COUNTED)

    # ---------------------------------------------------------- updates
    def _new(self, sid, local_init, pushed=False):
        s = StreamM(sid, local_init, pushed)
        self.streams[sid] = s
        if local_init:
            self.hi_local = max(self.hi_local, sid)
        else:
            self.hi_peer = max(self.hi_peer, sid)
        return s

    def _end_local(self, s):
        if s.state == OPEN:
            s.state = HC_LOCAL
        elif s.state == HC_REMOTE:
            s.state = CLOSED
            s.closed_by = "es"

    def _end_remote(self, s):
        if s.state == OPEN:
            s.state = HC_REMOTE
        elif s.state == HC_LOCAL:
            s.state = CLOSED
            s.closed_by = "es"

    def sent_headers(self, sid, es, info=False):
        s = self.streams.get(sid)
        if s is None:
            s = self._new(sid, True)
        if s.state == IDLE:
            s.state = OPEN
            s.sent = "final"
        elif s.state == RES_LOCAL:
            s.state = HC_REMOTE
            if info:
                s.sent_info += 1
            else:
                s.sent = "final"
        elif info:
            s.sent_info += 1
        elif s.sent == "none":
            s.sent = "final"
        else:
            s.sent = "trailers"
        if es:
            self._end_local(s)
        return s

    def recv_headers(self, sid, es, info=False):
        s = self.streams.get(sid)
        if s is None:
            s = self._new(sid, False)
        if s.state == IDLE:
            s.state = OPEN
            s.recv = "final"
        elif s.state == RES_REMOTE:
            s.state = HC_LOCAL
            if info:
                s.recv_info += 1
            else:
                s.recv = "final"
        elif info:
            s.recv_info += 1
        elif s.recv == "none":
            s.recv = "final"
        else:
            s.recv = "trailers"
        if es:
            self._end_remote(s)
        return s

    def sent_data(self, sid, es):
        s = self.streams.get(sid)
        if s is not None and es:
            self._end_local(s)

    def recv_data(self, sid, es):
        s = self.streams.get(sid)
        if s is not None and es:
            self._end_remote(s)

    def sent_rst(self, sid):
        s = self.streams.get(sid)
        if s is not None and s.state != CLOSED:
            s.state = CLOSED
            s.closed_by = "send_rst"

    def recv_rst(self, sid):
        s = self.streams.get(sid)
        if s is not None and s.state != CLOSED:
            s.state = CLOSED
            s.closed_by = "recv_rst"

    def sent_push(self, parent, promised):
        s = self._new(promised, True, pushed=True)
        s.state = RES_LOCAL
        s.recv = "final"          # the promised request counts as received
        return s

    def recv_push(self, parent, promised, refused=False):
        """``refused``: the endpoint answers the PUSH_PROMISE with RST_STREAM
        on the promised stream.  RFC 7540 5.1: the PUSH_PROMISE reserved the
        stream, the RST_STREAM (tracked by sent_rst when it is seen on the
        wire) closes it - it is a stream this endpoint has reset, and its id
        is used up.  Whether the endpoint keeps an object for such a stream is
        its own business: 'maybe forgotten'."""
        s = self._new(promised, False, pushed=True)
        s.state = RES_REMOTE
        s.sent = "final"          # the promised request counts as sent
        if refused:
            s.forgotten = 1
        return s

    def upgrade(self):
        """h2c: stream 1 half-closed (local for the client, remote for the
        server)."""
        s = self._new(1, self.client)
        if self.client:
            s.state = HC_LOCAL
            s.sent = "final"
        else:
            s.state = HC_REMOTE
            s.recv = "final"
        return s

    def cleanup(self):
        for s in self.streams.values():
            if s.state == CLOSED:
                s.forgotten = 2

    def maybe_cleanup(self):
        for s in self.streams.values():
            if s.state == CLOSED and s.forgotten == 0:
                s.forgotten = 1


# ====================================================================
# Verdict tables (RFC 7540 sections 5.1, 5.1.1, 5.4, 6.x, 8.1) - see
# DESIGN.md Appendix A.  An outcome is one of
#   ("ok",)            accepted, events delivered
#   ("ignore",)        accepted silently: no stream event, no frame
#   ("SE", code)       stream error: RST_STREAM(code) on that stream
#   ("CE", code)       connection error: exception + GOAWAY(code)
#   ("refuse-promised",) PUSH_PROMISE answered with RST_STREAM(promised, REFUSED_STREAM)
# The tables return the SET of allowed outcomes; entries that are library
# leniencies carry their source in Appendix B of DESIGN.md.
# ====================================================================

PE, SC_, FCE_, REFUSED = 1, 5, 3, 7
OK = ("ok",)
IGNORE = ("ignore",)


def recv_verdict(m, kind, sid, es=False, block=None, promised=None):
    """kind: headers | data | rst | wu | push | continuation.  block (for
    headers): request | response | info | trailers."""
    st = m.status(sid)
    s = m.get(sid)
    peer_parity = (sid % 2 == 1) != m.client
    if kind == "continuation":
        if (s is not None and s.state == CLOSED and s.closed_by == "es") or (s is None and st == "unused_low"):
            return {("CE", PE), ("CE", SC_)}
        return {("CE", PE)}
    if kind == "push":
        if not m.client:
            return {("CE", PE)}
        if s is None:
            return {("CE", PE)}
        if s.pushed or not s.local_init:
            return {("CE", PE)}
        if s.state in (OPEN, HC_LOCAL):
            return {OK}
        if s.state == HC_REMOTE:
            return {("SE", SC_), ("CE", PE)}
        if s.state == CLOSED and s.closed_by == "send_rst":
            return {("refuse-promised",)}
        return {("CE", PE)}
    if s is None and st == "unused_low" and kind in ("headers", "data"):
        # implicitly closed by a higher id (5.1.1): how it "was closed" is undefined - any closed-stream reaction
        return {("CE", PE), ("CE", SC_), ("SE", SC_)}
    if s is None:
        # never used
        if kind == "headers":
            if st == "unused_high" and peer_parity and not m.client and block == "request":
                return {OK}
            return {("CE", PE)}
        if kind == "rst":
            return {("CE", PE), IGNORE}        # (L) ignoring RST_STREAM on idle: code comment only
        if kind == "wu":
            return {("CE", PE), IGNORE} if st == "unused_low" else {("CE", PE)}
        return {("CE", PE)}
    state = s.state
    if state == CLOSED:
        if kind in ("rst", "wu"):
            return {IGNORE}                     # (L) however late
        if kind == "headers" and block == "info" and es:
            # malformed in itself (1xx with END_STREAM): a connection error is in order whatever the stream state
            base = {("CE", PE)}
            if s.closed_by == "send_rst":
                return base | {IGNORE, ("SE", SC_)}
            if s.closed_by == "recv_rst":
                return base | {("SE", SC_)}
            return base | {("CE", SC_)}
        if s.closed_by == "send_rst":
            return {IGNORE, ("SE", SC_)}
        if s.closed_by == "recv_rst":
            return {("SE", SC_)}
        return {("CE", SC_)}
    if kind == "rst":
        return {OK}
    if kind == "wu":
        if state == RES_REMOTE:
            return {("CE", PE), OK}             # RFC 5.1 forbids it; harmless - tolerated
        return {OK}
    if state == RES_LOCAL:
        return {("CE", PE)}
    if state == RES_REMOTE:
        if kind == "headers" and block in ("response",):
            return {OK}
        if kind == "headers" and block == "info":
            return {OK, ("CE", PE)}             # unspecified: 1xx on a promised stream
        return {("CE", PE)}
    if state == HC_REMOTE:
        if kind == "headers" and block == "info":
            return {("SE", SC_), ("CE", PE)}    # the peer misbehaves twice over; either error is in order
        return {("SE", SC_)}
    # open / half-closed(local): message grammar
    if kind == "data":
        if s.recv == "none":
            return {("CE", PE)}                 # DATA before HEADERS (changelog 4.0.0)
        if s.recv == "trailers":
            return {("CE", PE)}
        return {OK}
    if kind == "headers":
        if m.client:
            if s.recv == "none":
                if block == "info":
                    return {("CE", PE)} if es else {OK}
                if block == "response":
                    return {OK}
                return {("CE", PE)}
            if s.recv == "final":
                if block == "trailers" and es:
                    return {OK}
                return {("CE", PE)}
            return {("CE", PE)}
        # server: the request is there; anything further is trailers
        if s.recv == "final" and block == "trailers" and es:
            return {OK}
        return {("CE", PE)}
    return {("CE", PE)}


def classify_obs(o, sid, promised=None):
    """Observation -> outcome tuple comparable with recv_verdict()."""
    if o.kind == "raise":
        return ("CE", int(o.code) if o.is_proto else -1)
    for f in o.frames:
        if f.type == 3 and f.sid == sid:
            return ("SE", f.f["code"])
    if promised is not None:
        for f in o.frames:
            if f.type == 3 and f.sid == promised and f.f["code"] == REFUSED:
                return ("refuse-promised",)
    stream_events = [e for e in o.events if type(e).__name__ not in ("PriorityUpdated",)]
    if stream_events:
        return OK
    return IGNORE


def send_verdict(m, kind, sid, es=False, block=None):
    """Local action -> 'ok' | set of acceptable exception class names.
    kind: headers | data | end | rst | wu."""
    st = m.status(sid)
    s = m.get(sid)
    if s is None:
        if kind == "headers" and m.client and st == "unused_high" and m.is_local_id(sid) and block == "request":
            return "ok"
        if kind == "headers":
            return {"ProtocolError", "StreamIDTooLowError", "NoSuchStreamError", "StreamClosedError"}
        return {"NoSuchStreamError"} if st == "unused_high" else {"StreamClosedError", "NoSuchStreamError"}
    if s.state == CLOSED:
        if kind == "headers" and s.forgotten:
            return {"StreamClosedError", "StreamIDTooLowError"}
        return {"StreamClosedError"}
    can_send = s.state in (OPEN, HC_REMOTE)
    if kind == "rst":
        return "ok"
    if kind == "wu":
        return "ok"
    if kind in ("data", "end"):
        if can_send and s.sent == "final":
            return "ok"
        return {"ProtocolError"}
    if kind == "headers":
        if s.state == RES_LOCAL:
            if block == "response":
                return "ok"
            if block == "info":
                return {"ProtocolError"} if es else "ok"
            return {"ProtocolError"}
        if not can_send:
            return {"ProtocolError"}
        if m.client:
            # client on its own stream: only trailers can follow the request
            if s.sent == "final" and block == "trailers" and es:
                return "ok"
            return {"ProtocolError"}
        # server on a request stream (or its own pushed stream after the response)
        if s.sent == "none":
            if block == "response":
                return "ok"
            if block == "info":
                return {"ProtocolError"} if es else "ok"
            return {"ProtocolError"}
        if s.sent == "final" and block == "trailers" and es:
            return "ok"
        return {"ProtocolError"}
    return {"ProtocolError"}
