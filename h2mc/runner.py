"""Check runner: executes one property's check, triages violations against
known findings, writes replays + evidence, prints the interface lines.

Exit status: 0 property held on everything explored (known findings printed
as KNOWN-FINDING lines); 1 at least one VIOLATION line; 2 internal error.
"""
import hashlib
import importlib
import json
import os
import sys
import time
import traceback

from . import env
from . import explorer

VERIF = env.VERIF_DIR
KNOWN_FILE = os.path.join(VERIF, "known_findings.json")
# developer-only (tools/run_mutants.py): write replays and evidence of a run on a scratch copy elsewhere, so
# that a demonstration on mutated code never overwrites the evidence of the tree under test
OUT = os.environ.get("VERIF_OUT_DIR") or VERIF
THOROUGH_DEFAULT_BUDGET = 600     # seconds per harness, for checks that state none


def sig_hash(sig):
    return hashlib.sha1(json.dumps(sig, sort_keys=True, default=str)
                        .encode()).hexdigest()[:12]


def _jsonable(o):
    if isinstance(o, (bytes, bytearray)):
        try:
            return "b:" + bytes(o).decode("ascii")
        except UnicodeDecodeError:
            return "hex:" + bytes(o).hex()
    if isinstance(o, dict):
        return {str(k): _jsonable(v) for k, v in o.items()}
    if isinstance(o, (list, tuple, set, frozenset)):
        return [_jsonable(x) for x in o]
    if isinstance(o, (int, float, str, bool)) or o is None:
        return o
    return repr(o)


class Ctx:
    """What a check module's ``run(ctx)`` gets."""

    def __init__(self, prop, tier, module):
        self.prop = prop
        self.tier = tier
        self.module = module
        self.seed = env.SEED
        self.results = []          # explorer.Result
        self.fanouts = []          # dicts
        self.violations = []       # raw
        self.assumptions = []
        self.notes = {}
        self.samples = []
        self.t0 = time.time()
        self.progress = bool(os.environ.get("VERIF_PROGRESS"))

    # -- BFS
    def explore(self, spec_key, max_states=None, time_budget=None):
        if time_budget is None and self.tier == "thorough":
            time_budget = THOROUGH_DEFAULT_BUDGET     # every thorough exploration terminates in bounded time
        r = explorer.explore(spec_key, self.module.__name__, "make_spec",
                             max_states=max_states, time_budget=time_budget,
                             progress=self.progress)
        self.results.append(r)
        for v in r.violations:
            v.setdefault("spec_key", spec_key)
            self.violations.append(v)
        self.samples.extend(r.samples)
        return r

    # -- bounded-exhaustive fan-out over cases (no state matching)
    def fanout(self, name, jobs, fn_name, domain=None, chunks=None):
        """``jobs``: list of picklable shard descriptors; the module-level
        function ``fn_name(job)`` returns a dict with keys evaluations,
        outcomes{class:count}, nontrivial (set/list of hashable ids or int),
        violations[list], samples[list], states (int, optional)."""
        pool = explorer.get_pool(self.module.__name__, "make_spec")
        t0 = time.time()
        tot = {"harness": name, "evaluations": 0, "outcomes": {},
               "nontrivial": 0, "states": 0, "domain": domain or ""}
        fn = _FanoutCall(self.module.__name__, fn_name)
        nt = set()
        for job, r in zip(jobs, pool.imap(fn, jobs, chunksize=1)):
            if "crash" in r:
                raise explorer.InternalError("fan-out %s crashed:\n%s" % (name, r["crash"]))
            tot["evaluations"] += r.get("evaluations", 0)
            for k, c in r.get("outcomes", {}).items():
                tot["outcomes"][k] = tot["outcomes"].get(k, 0) + c
            n = r.get("nontrivial", 0)
            if isinstance(n, int):
                tot["nontrivial"] += n
            else:
                nt.update(n)
            tot["states"] += r.get("states", 0)
            for v in r.get("violations", []):
                v = dict(v)
                v["harness"] = name
                # which job found it: a violation that needs what the same process did before (module-level state of the
                # library, reuse of freed objects) only reproduces when the whole job is run again
                v["_fn"] = fn_name
                v["_job"] = job
                self.violations.append(v)
            for s in r.get("samples", []):
                if len(self.samples) < 8:
                    self.samples.append(s)
        tot["nontrivial"] += len(nt)
        tot["outcomes"] = dict(sorted(tot["outcomes"].items()))
        tot["wall_s"] = round(time.time() - t0, 2)
        self.fanouts.append(tot)
        if self.progress:
            print("  [%s] %d evaluations, outcomes %s (%.1fs)" % (
                name, tot["evaluations"], tot["outcomes"], tot["wall_s"]),
                file=sys.stderr)
        return tot

    def violation(self, v):
        self.violations.append(v)


class _FanoutCall:
    def __init__(self, modname, fn_name):
        self.modname = modname
        self.fn_name = fn_name

    def __call__(self, job):
        try:
            mod = importlib.import_module(self.modname)
            return getattr(mod, self.fn_name)(job)
        except Exception:
            return {"crash": traceback.format_exc()}


def load_known(prop):
    if not os.path.exists(KNOWN_FILE):
        return [], []
    data = json.load(open(KNOWN_FILE))
    open_, fixed = [], []
    for f in data.get("findings", []):
        if f.get("property") != prop:
            continue
        (open_ if f.get("status") == "open" else fixed).append(f)
    return open_, fixed


def matches(finding, v):
    sig = v.get("sig", {})
    for k, want in finding.get("match", {}).items():
        have = sig.get(k)
        if isinstance(want, list):
            if str(have) not in [str(w) for w in want]:
                return False
        elif str(have) != str(want):
            return False
    return True


def reproduce(module, rec):
    """Re-execute a stored replay record; returns list of violations seen."""
    vs = _reproduce_single(module, rec)
    want = sig_hash(rec["sig"]) if "sig" in rec else None
    if rec.get("_fn") and not any(sig_hash(x["sig"]) == want for x in vs):
        # not reproducible from the single case: run the job that found it once more, from its start
        r = getattr(module, rec["_fn"])(rec["_job"])
        vs = list(vs) + list(r.get("violations", []))
    return vs


def _reproduce_single(module, rec):
    if hasattr(module, "replay"):
        out = module.replay(rec)
        if out is not None:
            return out
    if "trace" in rec and "spec_key" in rec:
        spec = module.make_spec(_tuplify(rec["spec_key"]))
        steps, _ = explorer.replay_trace(spec, rec["init"], rec["trace"])
        vs = []
        for lab, outcome, viols, note in steps:
            vs.extend(viols)
        return vs
    raise explorer.InternalError("check module cannot replay %r" % (rec.keys(),))


def _tuplify(x):
    if isinstance(x, list):
        return tuple(_tuplify(y) for y in x)
    return x


def minimise(module, v, budget_s=20):
    """ddmin-lite on BFS traces: drop single actions while the same signature
    still fails."""
    if "trace" not in v or "spec_key" not in v or os.environ.get("VERIF_NOMIN"):
        return v
    spec = module.make_spec(_tuplify(v["spec_key"]))
    want = sig_hash(v["sig"])
    trace = list(v["trace"])
    t0 = time.time()

    def fails(tr):
        try:
            steps, _ = explorer.replay_trace(spec, v["init"], tr, strict=True)
        except Exception:
            return False
        for lab, outcome, viols, note in steps:
            for x in viols:
                if sig_hash(x["sig"]) == want:
                    return True
        return False

    changed = True
    while changed and time.time() - t0 < budget_s:
        changed = False
        for i in range(len(trace) - 1):   # never drop the final (failing) action
            cand = trace[:i] + trace[i + 1:]
            if fails(cand):
                trace = cand
                changed = True
                break
    v = dict(v)
    v["trace"] = trace
    return v


def run_check(prop, tier, replay_path=None):
    modname = "h2mc.checks.%s" % prop.lower()
    module = importlib.import_module(modname)
    if replay_path:
        return do_replay(prop, module, replay_path)
    ctx = Ctx(prop, tier, module)
    open_f, fixed_f = load_known(prop)

    # 1. known findings: re-execute their committed replays
    known_alive = []
    for f in open_f:
        path = os.path.join(VERIF, f["replay"])
        rec = json.load(open(path))
        vs = reproduce(module, rec)
        if any(matches(f, x) for x in vs):
            known_alive.append(f)
            print("KNOWN-FINDING: property=%s %s [%s]" % (prop, f["what"], f["id"]))
        else:
            print("note: known finding %s no longer reproduces from its replay"
                  % f["id"])
        f["_hits"] = 0

    # 2. the check proper
    module.run(ctx)
    explorer.close_pool()

    # 3. triage
    by_sig = {}
    for v in ctx.violations:
        h = sig_hash(v["sig"])
        if h not in by_sig:
            by_sig[h] = [v, 0]
        by_sig[h][1] += 1
    new = []
    for h, (v, n) in sorted(by_sig.items()):
        hit = None
        for f in open_f:
            if matches(f, v):
                hit = f
                break
        if hit is not None:
            hit["_hits"] += n
            continue
        new.append((h, v, n))

    rc = 0
    not_reproduced = 0
    replay_dir = os.path.join(OUT, "replays", prop)
    if os.path.isdir(replay_dir):
        for fn in os.listdir(replay_dir):
            if fn.endswith(".json"):
                os.unlink(os.path.join(replay_dir, fn))
    for h, v, n in new:
        v = minimise(module, v)
        # replay twice from scratch; must reproduce identically
        ok = True
        try:
            for _ in range(2):
                vs = reproduce(module, v)
                if not any(sig_hash(x["sig"]) == h for x in vs):
                    ok = False
        except Exception:
            ok = False
            traceback.print_exc()
        if not ok:
            print("internal error: violation %s did not reproduce on replay: %s"
                  % (h, json.dumps(_jsonable(v))[:2000]))
            not_reproduced += 1
            continue
        os.makedirs(replay_dir, exist_ok=True)
        path = os.path.join(replay_dir, "%s.json" % h)
        rec = _jsonable(v)
        rec["property"] = prop
        rec["count"] = n
        with open(path, "w") as fh:
            json.dump(rec, fh, indent=1, sort_keys=True)
        print("VIOLATION property=%s replay=%s" % (prop, path))
        print("  kind=%s sig=%s" % (v.get("kind"), json.dumps(_jsonable(v["sig"]), sort_keys=True)))
        print("  %s" % (v.get("msg", "")[:500]))
        if "trace" in v:
            print("  init=%s trace=%s" % (v.get("init"), v["trace"]))
        rc = max(rc, 1)

    if not_reproduced and rc == 0:
        rc = 2      # nothing was established: an observation that cannot be reproduced is an internal error, not a verdict
    write_evidence(ctx, open_f, len(new))
    tot_states = sum(r.states for r in ctx.results) + sum(f["states"] for f in ctx.fanouts)
    tot_trans = sum(r.transitions for r in ctx.results) + sum(f["evaluations"] for f in ctx.fanouts)
    print("%s %s: states=%d transitions=%d violations=%d known=%d wall=%.1fs"
          % (prop, tier, tot_states, tot_trans, len(new),
             sum(1 for f in open_f if f["_hits"]), time.time() - ctx.t0))
    return rc


def write_evidence(ctx, open_f, nviol):
    states = sum(r.states for r in ctx.results)
    trans = sum(r.transitions for r in ctx.results)
    fo_eval = sum(f["evaluations"] for f in ctx.fanouts)
    fo_states = sum(f["states"] for f in ctx.fanouts)
    outcomes = {}
    for r in ctx.results:
        for k, c in r.outcomes.items():
            outcomes[k] = outcomes.get(k, 0) + c
    for f in ctx.fanouts:
        for k, c in f["outcomes"].items():
            outcomes[k] = outcomes.get(k, 0) + c
    nontrivial = sum(f["nontrivial"] for f in ctx.fanouts)
    # BFS: a transition is non-trivial if its outcome class is not plain "ok";
    # distinct = distinct states reached (fingerprints) are counted in states.
    nontrivial += sum(c for r in ctx.results for k, c in r.outcomes.items()
                      if k != "ok")
    exhaustive = bool(ctx.results or ctx.fanouts) and all(
        r.closure for r in ctx.results)
    samples = ctx.samples[:8]
    if not samples:
        samples = [{"note": "no sample recorded"}]
    cov = {
        "states": max(1, states + fo_states),
        "transitions": max(1, trans + fo_eval),
        "traces_validated_against_impl": trans + fo_eval,
        "samples": _jsonable(samples),
        "evaluations": max(1, trans + fo_eval),
        "distinct_nontrivial": nontrivial,
        "rule": getattr(ctx.module, "RULE",
                        "every transition executes the real h2 code and is judged "
                        "by the reference model; non-trivial = outcome class other "
                        "than plain success (raise, stream error, connection error, "
                        "boundary hit)"),
        "exhaustive": exhaustive,
        "closure_reached": {r.name: r.closure for r in ctx.results},
        "max_depth": max([r.max_depth for r in ctx.results] or [0]),
        "harnesses": [r.as_dict() for r in ctx.results] + ctx.fanouts,
        "outcome_histogram": dict(sorted(outcomes.items())),
        "distinct_outcomes": len(outcomes),
        "known_findings_seen": {f["id"]: f.get("_hits", 0) for f in open_f},
        "bounds": getattr(ctx.module, "BOUNDS", {}).get(ctx.tier, ""),
        "alphabet": getattr(ctx.module, "ALPHABET", ""),
    }
    cov.update(_jsonable(ctx.notes))
    ev = {
        "property_id": ctx.prop,
        "tier": ctx.tier,
        "seed": ctx.seed,
        "level": "model_checking",
        "coverage": cov,
        "assumptions": list(getattr(ctx.module, "ASSUMPTIONS", [])) + ctx.assumptions + [
            "trusted base: CPython, the hpack package (peer compressor), h2mc/wire.py, the reference model of this check",
            "values outside the stated alphabets and histories beyond the stated bounds are not covered",
        ],
        "wall_s": round(time.time() - ctx.t0, 2),
        "violations": nviol,
    }
    os.makedirs(os.path.join(OUT, "evidence"), exist_ok=True)
    path = os.path.join(OUT, "evidence", "%s.json" % ctx.prop)
    tmp = path + ".tmp"
    with open(tmp, "w") as fh:
        json.dump(ev, fh, indent=1, sort_keys=True)
    os.replace(tmp, path)


def do_replay(prop, module, path):
    rec = json.load(open(path))
    print("replaying %s" % path)
    if "trace" in rec and "spec_key" in rec and not (
            hasattr(module, "replay") and module.replay(rec) is not None):
        spec = module.make_spec(_tuplify(rec["spec_key"]))
        steps, _ = explorer.replay_trace(spec, rec["init"], rec["trace"])
        vs = []
        for i, (lab, outcome, viols, note) in enumerate(steps):
            print("  step %d: %-40s -> %s%s" % (i, lab, outcome,
                                                ("  | " + str(note)) if note else ""))
            for x in viols:
                print("      !! %s: %s" % (x.get("kind"), x.get("msg")))
            vs.extend(viols)
    else:
        vs = reproduce(module, rec)
        for x in vs:
            print("  !! %s: %s" % (x.get("kind"), x.get("msg")))
    want = sig_hash(_unjson_sig(rec.get("sig", {})))
    if vs:
        print("VIOLATION property=%s replay=%s" % (prop, path))
        return 1
    print("no violation reproduced")
    return 0


def _unjson_sig(s):
    return s


def main(argv=None):
    import argparse
    ap = argparse.ArgumentParser()
    ap.add_argument("prop")
    ap.add_argument("--tier", default=os.environ.get("VERIF_TIER", "quick"),
                    choices=["quick", "thorough"])
    ap.add_argument("--replay")
    a = ap.parse_args(argv)
    try:
        rc = run_check(a.prop.upper(), a.tier, a.replay)
    except explorer.InternalError as e:
        print("internal error: %s" % e)
        explorer.close_pool()
        rc = 2
    except Exception:
        traceback.print_exc()
        explorer.close_pool()
        rc = 2
    sys.stdout.flush()
    os._exit(rc)
