"""Shared base states and deterministic peer byte streams for the input-space
checks (C17, C18, C21, C07).

A *base state* is a real connection driven into a named situation by a fixed
script; it is pickled once per worker and cloned per execution.
"""
import pickle

from . import harness as H
from . import wire

sb = H.stateless_block

SERVER_STATES = ["fresh", "preface-half", "handshaken", "open", "hc-remote",
                 "hc-local", "reset-by-us", "reset-by-peer", "forgotten",
                 "mid-block", "reserved-local", "two-streams", "skipped-id",
                 "closed-goaway-rcvd", "closed-by-error"]
CLIENT_STATES = ["fresh", "handshaken", "open", "hc-local", "resp-headers",
                 "reserved-remote", "reset-by-us", "reset-by-peer",
                 "forgotten", "mid-block", "two-streams", "skipped-id",
                 "closed-goaway-rcvd", "closed-by-error"]


def build_state(client, name, cfg=None):
    cfg = cfg or {}
    if name == "fresh":
        c = H.new_conn(client, **cfg)
        c.initiate_connection()
        c.data_to_send()
        return c
    if name == "preface-half":
        c = H.new_conn(client, **cfg)
        c.initiate_connection()
        c.receive_data(wire.PREFACE[:10])
        c.data_to_send()
        return c
    h = H.Solo(client, **cfg)
    c = h.conn
    if name == "handshaken":
        return c
    if not client:
        def hdr(sid, es=False, eh=True):
            return wire.headers(sid, sb(H.REQ_POST), es=es, eh=eh)
        if name == "open":
            h.rx([hdr(1)])
        elif name == "hc-remote":
            h.rx([hdr(1, es=True)])
        elif name == "hc-local":
            h.rx([hdr(1)])
            h.api("send_headers", 1, H.ni(H.RESP), end_stream=True)
        elif name == "reset-by-us":
            h.rx([hdr(1)])
            h.api("reset_stream", 1)
        elif name == "reset-by-peer":
            h.rx([hdr(1)])
            h.rx([wire.rst_stream(1, 8)])
        elif name == "forgotten":
            h.rx([hdr(1, es=True)])
            h.api("send_headers", 1, H.ni(H.RESP), end_stream=True)
            h.rx([hdr(3)])
            h.api("reset_stream", 3)
            h.cleanup()
        elif name == "mid-block":
            h.rx([hdr(1, eh=False)])
        elif name == "reserved-local":
            h.rx([hdr(1)])
            h.api("push_stream", 1, 2, H.ni(H.REQ))
        elif name == "two-streams":
            h.rx([hdr(1)])
            h.rx([hdr(3, es=True)])
            h.api("send_headers", 3, H.ni(H.RESP))
        elif name == "skipped-id":
            h.rx([hdr(3)])               # the peer's first stream is 3: stream 1 was never used and never will be

        elif name == "own-trailers-sent":
            # (not in SERVER_STATES: used by C15 only) request open, the server has answered with headers and trailers
            h.rx([hdr(1)])
            h.api("send_headers", 1, H.ni(H.RESP))
            h.api("send_headers", 1, H.ni(H.TRAILERS), end_stream=True)
        elif name == "closed-goaway-rcvd":
            h.rx([hdr(1)])
            h.rx([wire.goaway(1, 0)])
        elif name == "closed-by-error":
            h.rx([hdr(1)])
            h.rx([wire.window_update(0, 0)])
        else:
            raise ValueError(name)
    else:
        def req(sid, es=False):
            return h.api("send_headers", sid, H.ni(H.REQ_POST), end_stream=es)

        def resp(sid, es=False, eh=True):
            return wire.headers(sid, sb(H.RESP), es=es, eh=eh)
        if name == "open":
            req(1)
        elif name == "hc-local":
            req(1, es=True)
        elif name == "resp-headers":
            req(1)
            h.rx([resp(1)])
        elif name == "reserved-remote":
            req(1)
            h.rx([wire.push_promise(1, 2, sb(H.REQ))])
        elif name == "reset-by-us":
            req(1)
            h.api("reset_stream", 1)
        elif name == "reset-by-peer":
            req(1)
            h.rx([wire.rst_stream(1, 8)])
        elif name == "forgotten":
            req(1, es=True)
            h.rx([resp(1, es=True)])
            req(3)
            h.api("reset_stream", 3)
            h.cleanup()
        elif name == "mid-block":
            req(1)
            h.rx([resp(1, eh=False)])
        elif name == "two-streams":
            req(1)
            req(3, es=True)
            h.rx([resp(3)])
        elif name == "skipped-id":
            req(3)                       # our first stream is 3: stream 1 was never used and never will be

        elif name == "own-trailers-sent":
            # (not in CLIENT_STATES: used by C15 only) request, body and request trailers sent; no response yet
            req(1)
            h.api("send_data", 1, b"body")
            h.api("send_headers", 1, H.ni(H.TRAILERS), end_stream=True)
        elif name == "closed-goaway-rcvd":
            req(1)
            h.rx([wire.goaway(0, 0)])
        elif name == "closed-by-error":
            req(1)
            h.rx([wire.window_update(0, 0)])
        else:
            raise ValueError(name)
    c.data_to_send()
    return c


_CACHE = {}


def state_blob(client, name, cfgkey=()):
    k = (client, name, cfgkey)
    if k not in _CACHE:
        _CACHE[k] = pickle.dumps(build_state(client, name, dict(cfgkey)))
    return _CACHE[k]


def clone(client, name, cfgkey=()):
    return pickle.loads(state_blob(client, name, cfgkey))


def needs_preface(name):
    return name == "fresh"


# ---------------------------------------------------------------- valid traffic

def valid_streams(client):
    """Deterministic valid peer byte streams for a *handshaken* connection of
    the given role, as lists of frames (the receiver is ``client``)."""
    out = []
    big = [(b"x-long", b"v" * 300)]
    cookie = [(b"cookie", b"a=b"), (b"cookie", b"c=d")]
    if not client:
        r = H.REQ_POST
        out.append(("get", [wire.headers(1, sb(H.REQ), es=True)]))
        out.append(("post-body", [wire.headers(1, sb(r + [(b"content-length", b"5")])),
                                  wire.data(1, b"he"), wire.data(1, b"llo", es=True)]))
        out.append(("post-trailers", [wire.headers(1, sb(r)), wire.data(1, b"abc", pad=4),
                                      wire.headers(1, sb(H.TRAILERS), es=True)]))
        blk = sb(r + big + cookie)
        out.append(("continuation", [wire.headers(1, blk[:20], eh=False),
                                     wire.continuation(1, blk[20:200], eh=False),
                                     wire.continuation(1, blk[200:]), wire.data(1, b"", es=True)]))
        out.append(("priority", [wire.priority(5, 3, 200, True),
                                 wire.headers(1, sb(r), prio=(0, 17, False), pad=3),
                                 wire.rst_stream(1, 8), wire.headers(3, sb(H.REQ), es=True)]))
        out.append(("control", [wire.settings([(4, 100), (5, 20000), (1, 0)]), wire.ping(b"abcdefgh"),
                                wire.window_update(0, 1000), wire.settings([], ack=True),
                                wire.headers(1, sb(r)), wire.window_update(1, 5),
                                wire.raw(0x42, 0x3, 1, b"ext"), wire.altsvc(0, b"o", b"f"),
                                wire.goaway(0, 0, b"bye")]))
        out.append(("two-streams", [wire.headers(1, sb(r)), wire.headers(3, sb(r)),
                                    wire.data(3, b"x"), wire.data(1, b"y", es=True),
                                    wire.rst_stream(3, 0)]))
    else:
        out.append(("resp", [wire.headers(1, sb(H.RESP), es=True)]))
        out.append(("info-resp-body", [wire.headers(1, sb(H.INFO)),
                                       wire.headers(1, sb(H.RESP + [(b"content-length", b"5")])),
                                       wire.data(1, b"he"), wire.data(1, b"llo", es=True)]))
        out.append(("resp-trailers", [wire.headers(1, sb(H.RESP)), wire.data(1, b"abc", pad=4),
                                      wire.headers(1, sb(H.TRAILERS), es=True)]))
        blk = sb(H.RESP + big + [(b"set-cookie", b"a=b")])
        out.append(("continuation", [wire.headers(1, blk[:20], eh=False),
                                     wire.continuation(1, blk[20:200], eh=False),
                                     wire.continuation(1, blk[200:]), wire.data(1, b"", es=True)]))
        out.append(("push", [wire.push_promise(1, 2, sb(H.REQ + cookie)), wire.headers(1, sb(H.RESP)),
                             wire.headers(2, sb(H.RESP)), wire.data(2, b"pushed", es=True),
                             wire.data(1, b"", es=True)]))
        out.append(("control", [wire.settings([(4, 100), (5, 20000), (1, 0), (3, 1)]), wire.ping(b"abcdefgh"),
                                wire.window_update(0, 1000), wire.settings([], ack=True),
                                wire.window_update(1, 5), wire.altsvc(1, b"", b"f"),
                                wire.altsvc(0, b"example.com", b"f"),
                                wire.raw(0x42, 0x3, 1, b"ext"), wire.priority(1, 0, 1, False),
                                wire.rst_stream(1, 2), wire.goaway(1, 0, b"bye")]))
    return out


def prepared_for_valid(client):
    """Connection ready to receive the valid streams (client: request on 1
    sent, not ended)."""
    h = H.Solo(client)
    if client:
        h.api("send_headers", 1, H.ni(H.REQ_POST))
    return h.conn
