"""Level-synchronous explicit-state BFS over the real implementation.

A *spec* (one harness configuration of one check) provides:

    spec.name                       str
    spec.initial()                  -> list of (init_name, state)     fresh objects
    spec.actions(state)             -> list of action labels (str), deterministic
    spec.apply(state, label)        -> Step  (mutates state in place)
    spec.fingerprint(state)         -> 16 bytes
    spec.max_depth                  int or None (None = run to closure)

``Step`` carries the outcome class (for the vacuity histogram), the list of
violations found by the oracle on this transition, and a prune flag.

The master keeps the ``seen`` set and the frontier as *traces* (init name +
list of action labels).  Workers rebuild a state by replaying its trace on
fresh objects, check that the fingerprint equals the one recorded at discovery
(replay self-check: a mismatch is uncontrolled nondeterminism and a hard
error), pickle it once and for each enabled action unpickle a clone, execute,
judge and fingerprint.
"""
import multiprocessing
import os
import pickle
import sys
import time
import traceback


class Step:
    __slots__ = ("outcome", "violations", "prune", "note")

    def __init__(self, outcome="ok", violations=None, prune=False, note=None):
        self.outcome = outcome
        self.violations = violations or []
        self.prune = prune
        self.note = note


class InternalError(Exception):
    pass


_SPEC_CACHE = {}
_SPEC_FACTORY = None


def _get_spec(key):
    sp = _SPEC_CACHE.get(key)
    if sp is None:
        sp = _SPEC_FACTORY(key)
        _SPEC_CACHE[key] = sp
    return sp


def rebuild(spec, init_name, trace):
    """Replay a trace on fresh objects; returns (state, steps)."""
    for nm, st in spec.initial():
        if nm == init_name:
            state = st
            break
    else:
        raise InternalError("unknown initial state %r" % init_name)
    steps = []
    for lab in trace:
        steps.append(spec.apply(state, lab))
    return state, steps


def _expand(job):
    """Worker: expand one frontier node."""
    key, init_name, trace, fp_expected = job
    try:
        spec = _get_spec(key)
        state, _ = rebuild(spec, init_name, trace)
        fp = spec.fingerprint(state)
        if fp_expected is not None and fp != fp_expected:
            return ("diverged", init_name, trace)
        blob = pickle.dumps(state, pickle.HIGHEST_PROTOCOL)
        out = []
        for lab in spec.actions(state):
            s2 = pickle.loads(blob)
            st = spec.apply(s2, lab)
            fp2 = None if (st.prune and not st.violations) else spec.fingerprint(s2)
            out.append((lab, fp2, st.outcome, st.violations, st.prune))
        return ("ok", init_name, trace, out)
    except Exception:
        return ("crash", init_name, trace, traceback.format_exc())


def _pool_init(factory_module, factory_name):
    global _SPEC_FACTORY
    mod = __import__(factory_module, fromlist=[factory_name])
    _SPEC_FACTORY = getattr(mod, factory_name)


class Result:
    def __init__(self, name):
        self.name = name
        self.states = 0
        self.transitions = 0
        self.max_depth = 0
        self.closure = False
        self.outcomes = {}
        self.pruned = 0
        self.violations = []      # raw violation dicts (with trace)
        self.samples = []
        self.levels = []
        self.wall_s = 0.0
        self.bound = None

    def as_dict(self):
        return {
            "harness": self.name, "states": self.states,
            "transitions": self.transitions, "max_depth": self.max_depth,
            "closure": self.closure, "depth_bound": self.bound,
            "outcomes": dict(sorted(self.outcomes.items())),
            "pruned_paths": self.pruned, "levels": self.levels,
            "wall_s": round(self.wall_s, 2),
        }


_POOL = None
_POOL_KEY = None


def get_pool(factory_module, factory_name, procs=None):
    global _POOL, _POOL_KEY
    k = (factory_module, factory_name)
    if _POOL is not None and _POOL_KEY == k:
        return _POOL
    if _POOL is not None:
        _POOL.terminate()
    procs = procs or int(os.environ.get("VERIF_PROCS", "0")) or os.cpu_count() or 4
    ctx = multiprocessing.get_context("fork")
    _POOL = ctx.Pool(procs, initializer=_pool_init, initargs=k)
    _POOL_KEY = k
    return _POOL


def close_pool():
    global _POOL
    if _POOL is not None:
        _POOL.terminate()
        _POOL = None


LEVEL_BATCH = 8192


def explore(spec_key, factory_module, factory_name, max_states=None,
            time_budget=None, progress=False):
    """Run BFS for the spec identified by ``spec_key``.  Returns Result."""
    global _SPEC_FACTORY
    mod = __import__(factory_module, fromlist=[factory_name])
    _SPEC_FACTORY = getattr(mod, factory_name)
    spec = _get_spec(spec_key)
    pool = get_pool(factory_module, factory_name)
    res = Result(spec.name)
    res.bound = spec.max_depth
    t0 = time.time()
    seen = set()
    frontier = []
    for nm, st in spec.initial():
        fp = spec.fingerprint(st)
        if fp in seen:
            continue
        seen.add(fp)
        frontier.append((nm, (), fp))
    depth = 0
    capped = None
    while frontier:
        if spec.max_depth is not None and depth >= spec.max_depth:
            break
        jobs = [(spec_key, nm, tr, fp) for nm, tr, fp in frontier]
        chunk = max(1, min(64, len(jobs) // 64))
        nxt = []
        ntrans = 0
        if time_budget:
            # the budget also binds inside a level: the frontier is expanded in (ordered) batches and the level
            # is cut short once the budget is spent; what was expanded is judged as usual, the rest of the
            # frontier stays unexpanded and the run is reported as capped (never as closure)
            results = []
            for i in range(0, len(jobs), LEVEL_BATCH):
                results.extend(pool.map(_expand, jobs[i:i + LEVEL_BATCH], chunksize=chunk))
                if time.time() - t0 > time_budget and i + LEVEL_BATCH < len(jobs):
                    capped = "time budget %ds, depth %d expanded for %d of %d frontier states" % (
                        time_budget, depth + 1, i + LEVEL_BATCH, len(jobs))
                    break
        else:
            results = pool.map(_expand, jobs, chunksize=chunk)
        # deterministic merge: results are in job order; jobs are sorted
        for r in results:
            if r[0] == "diverged":
                raise InternalError(
                    "replay divergence (uncontrolled nondeterminism) in %s at %r"
                    % (spec.name, (r[1], r[2])))
            if r[0] == "crash":
                raise InternalError("harness crash in %s at %r:\n%s"
                                    % (spec.name, (r[1], r[2]), r[3]))
            _, nm, tr, outs = r
            for lab, fp2, outcome, viols, prune in outs:
                ntrans += 1
                res.outcomes[outcome] = res.outcomes.get(outcome, 0) + 1
                tr2 = tr + (lab,)
                if viols:
                    for v in viols:
                        v = dict(v)
                        v["init"] = nm
                        v["trace"] = list(tr2)
                        v["harness"] = spec.name
                        res.violations.append(v)
                    res.pruned += 1
                    continue
                if prune:
                    res.pruned += 1
                    continue
                if fp2 in seen:
                    continue
                seen.add(fp2)
                nxt.append((nm, tr2, fp2))
                if len(res.samples) < 3 and len(tr2) >= 3 and (len(seen) % 97 == 3):
                    res.samples.append({"init": nm, "trace": list(tr2),
                                        "last_outcome": outcome})
        depth += 1
        res.transitions += ntrans
        res.levels.append({"depth": depth, "new_states": len(nxt),
                           "transitions": ntrans})
        if progress:
            print("  [%s] depth %d: +%d states, %d transitions, %d violations (%.1fs)"
                  % (spec.name, depth, len(nxt), ntrans, len(res.violations),
                     time.time() - t0), file=sys.stderr)
        nxt.sort(key=lambda x: (x[0], x[1]))
        frontier = nxt
        if capped:
            break
        if max_states and len(seen) > max_states:
            capped = "state cap %d" % max_states
            break
        if time_budget and time.time() - t0 > time_budget:
            capped = "time budget %ds" % time_budget
            break
    res.states = len(seen)
    res.max_depth = depth
    res.closure = (not frontier)
    if capped:
        res.closure = False
        res.bound = "%s (capped: %s)" % (res.bound, capped)
    if not res.samples and len(seen) > 1:
        # fall back: the deepest frontier trace known
        pass
    res.wall_s = time.time() - t0
    return res


def replay_trace(spec, init_name, trace, strict=False):
    """Re-execute a trace without the explorer; returns the list of
    (label, outcome, violations, note) per step and the final state.  With
    ``strict`` every label must be enabled (in spec.actions) when it is taken."""
    if strict:
        state = None
        for nm, st0 in spec.initial():
            if nm == init_name:
                state = st0
        if state is None:
            raise InternalError("unknown initial state %r" % init_name)
        steps = []
        for lab in trace:
            if lab not in spec.actions(state):
                raise InternalError("label %r not enabled" % lab)
            steps.append(spec.apply(state, lab))
        return [(lab, st.outcome, st.violations, st.note) for lab, st in zip(trace, steps)], state
    state, steps = rebuild(spec, init_name, trace)
    out = []
    for lab, st in zip(trace, steps):
        out.append((lab, st.outcome, st.violations, st.note))
    return out, state
