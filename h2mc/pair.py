"""Pair harness: a real client and a real server joined by two byte pipes.

Used by C01 (faithful exchange) and C25 (h2c upgrade).  The harness keeps, per
receiving endpoint, a FIFO *ledger* of the abstract items the other side's
successful calls must make it report, and compares it with what the
receiver's events say, in order, as bytes are delivered.
"""
from . import harness as H
from . import wire
from .models import headers_spec as HS

C, S = 0, 1
NAMES = ("client", "server")


def norm(headers):
    return tuple((n, v) for n, v, _ in HS.normalise_outbound(headers))


class PairState:
    def __init__(self, upgraded=False, handshake=True, client_cfg=None):
        self.conn = [H.new_conn(True, **(client_cfg or {})), H.new_conn(False)]
        self.pipe = [bytearray(), bytearray()]     # pipe[C]: bytes in flight client -> server
        self.ledger = [[], []]                     # ledger[X]: items endpoint X must still observe
        self.gone = [set(), set()]                 # gone[X]: streams X reset or saw reset / ended with error
        self.closed = [False, False]               # X closed the connection itself (close_connection)
        self.broken = False
        self.budget = 0
        self.raised = []                           # methods of local calls that raised earlier in this history
        self.es = [{}, {}]                         # es[X][sid] = set of 'sent'/'recv' END_STREAM seen by X
        # SETTINGS bookkeeping for signatures: frames sent by X (the initial one counts), ACKs the peer has emitted for
        # them that reached X, and whether an ACK ever reached X while a LATER frame of X was already outstanding - the only
        # situation in which the known per-key acknowledgement defect (C11) can apply a value early
        self.sset = [1, 1]
        self.acks = [0, 0]
        self.overlap = [False, False]
        if upgraded:
            hdr = self.conn[C].initiate_upgrade_connection()
            self.pipe[C] += self.conn[C].data_to_send()
            self.conn[S].initiate_upgrade_connection(hdr)
            self.pipe[S] += self.conn[S].data_to_send()
        else:
            for x in (C, S):
                self.conn[x].initiate_connection()
                self.pipe[x] += self.conn[x].data_to_send()
        for x in (C, S):
            # the initial SETTINGS frame of x must be reported by the other side with x's local values
            vals = tuple(sorted((int(k), v) for k, v in self.conn[x].local_settings.items()))
            if not (upgraded and x == C and False):
                self.ledger[1 - x].append(("settings", vals))
        if handshake:
            errs = self.pump(lambda *a, **k: None)
            assert not errs, errs

    # ------------------------------------------------------------------
    def observed_items(self, events):
        """events of one receive_data call -> abstract items (compared kinds only)"""
        out = []
        linked_end = set()
        for e in events:
            if getattr(e, "stream_ended", None) is not None:
                linked_end.add(id(e.stream_ended))
        for e in events:
            n = type(e).__name__
            if n in ("RequestReceived", "ResponseReceived", "InformationalResponseReceived", "TrailersReceived"):
                kind = {"RequestReceived": "request", "ResponseReceived": "response",
                        "InformationalResponseReceived": "info", "TrailersReceived": "trailers"}[n]
                out.append(("headers", e.stream_id, kind, tuple((bytes(a), bytes(b)) for a, b in e.headers),
                            getattr(e, "stream_ended", None) is not None))
            elif n == "DataReceived":
                out.append(("data", e.stream_id, bytes(e.data), e.stream_ended is not None))
            elif n == "StreamEnded":
                if id(e) not in linked_end:
                    out.append(("end", e.stream_id))
            elif n == "StreamReset":
                if e.remote_reset:
                    out.append(("reset", e.stream_id, int(e.error_code)))
                else:
                    out.append(("local-reset", e.stream_id, int(e.error_code)))
            elif n == "PushedStreamReceived":
                out.append(("push", e.parent_stream_id, e.pushed_stream_id, tuple((bytes(a), bytes(b)) for a, b in e.headers)))
            elif n == "PingReceived":
                out.append(("ping", bytes(e.ping_data)))
            elif n == "PriorityUpdated":
                out.append(("priority", e.stream_id, e.weight, e.depends_on, bool(e.exclusive)))
            elif n == "RemoteSettingsChanged":
                out.append(("settings", tuple(sorted((int(k), v.new_value) for k, v in e.changed_settings.items()))))
            elif n == "ConnectionTerminated":
                out.append(("goaway", int(e.error_code), e.last_stream_id, e.additional_data))
            elif n == "AlternativeServiceAvailable":
                out.append(("altsvc", e.origin, e.field_value))
        return out

    def item_sid(self, item):
        if item[0] in ("headers", "data", "end", "reset", "priority"):
            return item[1]
        if item[0] == "push":
            return item[1]
        return None

    def check_observed(self, x, items, bad, context):
        """compare items observed by endpoint x with its ledger (in order)"""
        led = self.ledger[x]
        for it in items:
            if it[0] == "local-reset":
                self.gone[x].add(it[1])
                bad("valid-frame-caused-stream-error", "%s: %s answered a frame of the peer with a stream error on stream %d (code %s)" % (
                    context, NAMES[x], it[1], wire.err_name(it[2])), receiver=NAMES[x],
                    after_raising_call=(self.raised[0] if self.raised else "none"))
                continue
            # skip ledger entries that legitimately may never be reported (stream gone at the receiver)
            while led and led[0] != it and self._optional(x, led[0]):
                led.pop(0)
            if led and led[0] == it:
                led.pop(0)
                if it[0] == "reset":
                    self.gone[x].add(it[1])
                if (it[0] == "headers" and it[4]) or (it[0] == "data" and it[3]):
                    self.note_es(x, it[1], "recv")
                if it[0] == "goaway":
                    self.closed[x] = True    # the connection is over for x as well
                continue
            sid = self.item_sid(it)
            bad("unexpected-or-altered-event",
                "%s: %s reported %r; next expected %r" % (context, NAMES[x], _short(it), _short(led[0]) if led else None),
                receiver=NAMES[x], item=it[0], expected_item=(led[0][0] if led else "nothing"),
                after_raising_call=(self.raised[0] if self.raised else "none"),
                on_gone_stream=(sid in self.gone[x]) if sid is not None else False)
            return False
        return True

    def note_es(self, x, sid, which):
        f = self.es[x].setdefault(sid, set())
        f.add(which)
        if len(f) == 2:
            self.gone[x].add(sid)      # closed normally at x: late RST_STREAM / WINDOW_UPDATE for it are ignored silently

    def _optional(self, x, item):
        sid = self.item_sid(item)
        if self.closed[x] or self.closed[1 - x]:
            return True
        if item[0] == "push" and (item[1] in self.gone[x] or item[2] in self.gone[x]):
            return True
        return sid is not None and sid in self.gone[x]

    def deliver(self, to, data, bad, context):
        """feed bytes to endpoint ``to``; returns False if the path must end"""
        conn = self.conn[to]
        o = H.recv(conn, bytes(data))
        self.pipe[to] += o.raw
        for f in o.frames:
            if f.type == wire.RST_STREAM:
                # an automatic reply (refused push, frame on a stream this endpoint reset): the peer will report it
                self.ledger[1 - to].append(("reset", f.sid, f.f["code"]))
                self.gone[to].add(f.sid)
        # every SETTINGS ACK that has reached ``to`` by now (an error later in the same chunk does not undo it)
        nack = sum(1 for e in (o.events or []) if type(e).__name__ == "SettingsAcknowledged")
        if o.kind == "raise":
            nack = max(nack, 1 if self.sset[to] - self.acks[to] >= 2 and b"\x04\x01\x00\x00\x00\x00" in bytes(data) else 0)
        for _ in range(nack):
            if self.sset[to] - self.acks[to] >= 2:
                self.overlap[to] = True
            self.acks[to] += 1
        if o.kind == "raise":
            if not self.closed[to]:
                bad("valid-traffic-rejected",
                    "%s: %s.receive_data raised %s (%s) on bytes produced by the peer's successful calls" % (
                        context, NAMES[to], o.exc_name, o.msg),
                    receiver=NAMES[to], exc=o.exc_name, code=(wire.err_name(int(o.code)) if o.is_proto else "n/a"),
                    detail=" ".join((o.msg or "").split()[:4]), after_raising_call=(self.raised[0] if self.raised else "none"),
                    settings_overlap=self.overlap[to])
            self.broken = True
            return False
        return self.check_observed(to, self.observed_items(o.events), bad, context)

    def pump(self, bad, context="pump", limit=50):
        """lock-step: deliver everything in both directions until quiescent"""
        errs = []

        def b(kind, msg, **sig):
            errs.append((kind, msg))
            bad(kind, msg, **sig)
        for _ in range(limit):
            if not self.pipe[C] and not self.pipe[S]:
                break
            for frm in (C, S):
                if self.pipe[frm]:
                    data = bytes(self.pipe[frm])
                    del self.pipe[frm][:]
                    if not self.deliver(1 - frm, data, b, context):
                        return errs or [("stopped", "")]
        return errs

    def quiescent_check(self, bad, context):
        if self.pipe[C] or self.pipe[S] or self.broken:
            return
        for x in (C, S):
            rest = [it for it in self.ledger[x] if not self._optional(x, it)]
            if rest:
                bad("sent-item-never-reported", "%s: everything was delivered but %s never reported %r (and %d more)" % (
                    context, NAMES[x], _short(rest[0]), len(rest) - 1), receiver=NAMES[x], item=rest[0][0],
                    after_raising_call=(self.raised[0] if self.raised else "none"))
                self.ledger[x] = []


def _short(it):
    if it is None:
        return None
    out = []
    for v in it:
        if isinstance(v, (bytes, bytearray)) and len(v) > 24:
            out.append(bytes(v[:24]) + b"...(%d)" % len(v))
        elif isinstance(v, tuple) and len(v) > 6:
            out.append(v[:6] + ("...",))
        else:
            out.append(v)
    return tuple(out)
