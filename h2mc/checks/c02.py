"""C02 - emitted bytes are well-formed HTTP/2 that encode exactly the calls.

Two layers, both on the real connection with an independent parser (h2mc/wire)
and an independent HPACK decoder.

 (a) Explicit-state BFS over call programs that start with
     initiate_connection (both roles), with peer frames only where needed to
     make calls legal (peer SETTINGS announcing MAX_FRAME_SIZE 2^14, 2^14+1,
     2^15, 2^24-1; peer HEADERS to open streams for a server).  Every public
     sending call is in the menu with small arguments.
 (b) Argument fan-outs from states of (a): send_data with pad_length 0..255
     x payload sizes {0, 1, F-pad-2, F-pad-1, F-pad} for the current limit F;
     priority weight 1..256 x depends_on x exclusive on HEADERS and PRIORITY;
     header lists tuned so the encoded block is F-8..F+8 and 2F-2..2F+2 bytes,
     with and without priority arguments, also as PUSH_PROMISE; reset /
     close codes {0, 1, 0xd, 0xffffffff}; window increments {1, 2^31-1};
     settings dicts of 0-3 entries in both orders (incl. identifiers >= 256);
     ping payloads; alt-svc forms.

Oracle: the whole output parses; client preface exactly once and first; first
frame SETTINGS with the local values; every frame valid for its type; payload
length <= the peer's CURRENT MAX_FRAME_SIZE; header blocks contiguous; per
successful call the new frames equal the expected frames field by field and
the HPACK-decoded block equals the normalised header list.
"""
import itertools
import pickle

import hpack

from .. import harness as H
from .. import wire
from ..canon import fingerprint
from ..explorer import Step
from ..models import headers_spec as HS

PROPERTY = "C02"
ALPHABET = "see module docstring"
BOUNDS = {"quick": "(a) program depth 4 per role; (b) full fan-outs for F=16384 and F=16385, thinned pad/weight grids for the larger limits",
          "thorough": "(a) program depth 5 (or time budget, reported); (b) full fan-outs for all four frame-size limits"}
sb = H.stateless_block
FRAME_LIMITS = [2 ** 14, 2 ** 14 + 1, 2 ** 15, 2 ** 24 - 1]


# ------------------------------------------------------------------ expected frames

def check_frames(o, F, bad, what):
    """generic well-formedness of the frames of one observation"""
    if o.wire_error:
        bad("malformed-output", "%s: %s" % (what, o.wire_error))
        return False
    for f in o.frames:
        if len(f.payload) > F:
            bad("frame-exceeds-peer-max-frame-size", "%s: %s has %d payload bytes, peer limit %d" % (what, f.name, len(f.payload), F),
                frame=f.name)
            return False
    try:
        wire.header_blocks(o.frames)
    except wire.WireError as e:
        bad("header-block-not-contiguous", "%s: %s" % (what, e))
        return False
    return True


def expect_headers_like(o, first_type, sid, hdrs, es, prio, F, bad, what, promised=None, dec=None):
    """HEADERS/PUSH_PROMISE + CONTINUATIONs carrying exactly hdrs (normalised)."""
    if not o.frames:
        bad("nothing-emitted", "%s emitted nothing" % what)
        return
    fr = o.frames
    f0 = fr[0]
    if f0.type != first_type or f0.sid != sid:
        bad("wrong-first-frame", "%s: first frame %s" % (what, f0.brief()))
        return
    if any(f.type != wire.CONTINUATION or f.sid != sid for f in fr[1:]):
        bad("unexpected-extra-frames", "%s: %s" % (what, [f.brief() for f in fr]))
        return
    if [f.f["eh"] for f in fr] != [False] * (len(fr) - 1) + [True]:
        bad("end-headers-misplaced", "%s: END_HEADERS flags %r" % (what, [f.f["eh"] for f in fr]))
    if first_type == wire.HEADERS:
        if f0.f["es"] != bool(es):
            bad("end-stream-flag", "%s: END_STREAM=%r, requested %r" % (what, f0.f["es"], es))
        if f0.f["prio"] != prio:
            bad("priority-fields", "%s: priority fields %r, requested %r" % (what, f0.f["prio"], prio))
        if f0.f["pad"] is not None:
            bad("unexpected-padding", "%s: HEADERS padded" % what)
    else:
        if f0.f["promised"] != promised:
            bad("promised-id", "%s: promised id %r, requested %r" % (what, f0.f["promised"], promised))
    block = b"".join(f.f["block"] for f in fr)
    # minimal number of frames is not demanded, only that each fits
    if dec is None:
        dec = hpack.Decoder()
        dec.max_header_list_size = 2 ** 31
    try:
        got = [(bytes(h[0]), bytes(h[1])) for h in dec.decode(block, raw=True)]
    except Exception as e:  # noqa: BLE001
        bad("block-undecodable", "%s: %r" % (what, e))
        return
    want = [(n, v) for n, v, _ in HS.normalise_outbound(hdrs)]
    if got != want:
        bad("decoded-headers-differ", "%s: decoded %d fields, expected %d; first difference %r" % (
            what, len(got), len(want), next(((a, b) for a, b in zip(got, want) if a != b), None)))


def expect_single(o, bad, what, type_, sid, **fields):
    if len(o.frames) != 1:
        bad("wrong-frame-count", "%s emitted %s" % (what, [f.brief() for f in o.frames]), frame=wire.TYPE_NAMES.get(type_))
        return
    f = o.frames[0]
    if f.type != type_ or f.sid != sid:
        bad("wrong-frame", "%s emitted %s" % (what, f.brief()), frame=wire.TYPE_NAMES.get(type_))
        return
    for k, v in fields.items():
        if f.f.get(k) != v:
            bad("wrong-frame-field", "%s: %s.%s = %r, requested %r" % (what, f.name, k, f.f.get(k), v),
                frame=f.name, field=k)


# ------------------------------------------------------------------ (a) program BFS

class S:
    pass


class Spec:
    def __init__(self, key):
        _, role, tier = key
        self.client = role == "client"
        self.tier = tier
        self.name = "c02-programs-%s-%s" % (role, tier)
        self.max_depth = 4 if tier == "quick" else 5

    def initial(self):
        st = S()
        st.conn = H.new_conn(self.client)
        st.initiated = False
        st.F = 2 ** 14
        st.peer_pref = not self.client     # server: the peer still has to send its preface
        st.streams = []                    # ids on which we may send (opened)
        st.hdr_sent = set()
        st.dead = False
        st.nopen = 0
        st.badprio = False
        st.dec = hpack.Decoder()           # the peer's decoder, follows the library's encoder
        st.dec.max_header_list_size = 2 ** 31
        out = [("new", st)]
        # a second start state two calls further on (connection initiated, one stream open), so that the depth bound
        # reaches histories such as: peer raises MAX_FRAME_SIZE, push, peer lowers it again, large block on the promised stream
        st2 = pickle.loads(pickle.dumps(st))
        for lab in ("initiate", "open"):
            step = self.apply(st2, lab)
            assert not step.violations and not st2.dead, (lab, step.violations)
        out.append(("initiated+open", st2))
        return out

    def fingerprint(self, st):
        return fingerprint(st.conn, st.initiated, st.F, st.peer_pref, tuple(st.streams), tuple(sorted(st.hdr_sent)), st.dead, st.nopen, st.dec, st.badprio)

    def actions(self, st):
        if st.dead:
            return []
        if not st.initiated:
            return ["initiate", "initiate-upgrade"]
        acts = ["ping", "settings:2", "settings:0", "settings:dflt", "incr:0", "close:0", "close:d", "rx:mfs:%d" % FRAME_LIMITS[1],
                "rx:mfs:%d" % FRAME_LIMITS[3], "rx:ping", "rx:settings", "rx:settings-empty",
                # the same received frames while an earlier call's output has not been collected yet: replies are APPENDED
                "pend+rx:ping", "pend+rx:settings",
                # a connection error while an earlier call's output has not been collected: that output stays, the GOAWAY follows it
                "pend+rx:bad", "rx:bad",
                # our own MAX_FRAME_SIZE raised and acknowledged: it bounds what we RECEIVE, never what we send
                "settings:mfs", "rx:ack",
                # a partial read, the buffer discarded, a new frame queued: the next read returns that frame, whole
                "partial+clear"]
        if st.F != FRAME_LIMITS[0]:
            acts.append("rx:mfs:%d" % FRAME_LIMITS[0])      # the peer lowers its limit again
        # a SETTINGS frame that carries MAX_FRAME_SIZE next to another setting (HEADER_TABLE_SIZE at its current value)
        acts.append("rx:mfs+hts:%d" % (FRAME_LIMITS[0] if st.F != FRAME_LIMITS[0] else FRAME_LIMITS[1]))
        if st.nopen < 2:
            acts.append("open")
            if self.client and not st.badprio:
                # a request refused for its priority fields (weight 0): nothing may be emitted - and nothing of it may
                # stay behind in the compression context, which the next request (same extra field) would reveal
                acts.append("open:badprio")
        if self.client:
            acts += ["prio:1", "prio:9"]
        else:
            acts += ["altsvc:origin"]
        for sid in st.streams:
            acts += ["data:%d" % sid, "data:%d:pad" % sid, "data:%d:es" % sid, "end:%d" % sid, "rst:%d" % sid, "incr:%d" % sid,
                     "bighdr:%d" % sid]
            if not self.client:
                acts += ["push:%d" % sid, "altsvc:%d" % sid, "info:%d" % sid]
        return acts

    def apply(self, st, lab):
        viols = []
        c = st.conn

        def bad(kind, msg, **sig):
            s = {"kind": kind, "role": "client" if self.client else "server"}
            s.update(sig)
            viols.append({"kind": kind, "sig": s, "msg": msg})

        pend = lab.startswith("pend+")
        if pend:
            lab = lab[5:]
        parts = lab.split(":")
        out = parts[0]
        if parts[0] in ("initiate", "initiate-upgrade"):
            local = [(int(k), v) for k, v in c.local_settings.items()]
            if parts[0] == "initiate":
                o = H.call(c, "initiate_connection")
            elif self.client:
                o = H.call(c, "initiate_upgrade_connection")
            else:
                hdr = H.new_conn(True).initiate_upgrade_connection()
                o = H.call(c, "initiate_upgrade_connection", hdr)
            st.initiated = True
            if o.kind != "ok":
                bad("initiate-failed", o.brief())
                st.dead = True
                return Step("initiate-failed", viols, prune=True)
            if self.client and not o.raw.startswith(wire.PREFACE):
                bad("preface-missing", "client output starts with %r" % o.raw[:24])
            if o.raw.count(wire.PREFACE) != (1 if self.client else 0):
                bad("preface-count", "preface occurs %d times" % o.raw.count(wire.PREFACE))
            if check_frames(o, st.F, bad, lab):
                if not o.frames or o.frames[0].type != wire.SETTINGS or o.frames[0].f["ack"] or o.frames[0].sid != 0:
                    bad("first-frame-not-settings", "first frame %s" % (o.frames[:1],))
                elif [tuple(x) for x in o.frames[0].f["settings"]] != local:
                    bad("initial-settings-differ", "SETTINGS carries %r, local settings %r" % (o.frames[0].f["settings"], local))
                if len(o.frames) != 1:
                    bad("extra-frames-at-start", "%s" % [f.brief() for f in o.frames])
            if parts[0] == "initiate-upgrade":
                st.streams.append(1)
                st.nopen += 1
                if not self.client:
                    pass
                else:
                    st.hdr_sent.add(1)
                    st.streams.remove(1)      # the client cannot send on stream 1 any more
            return Step(out, viols)
        pre = b""
        if st.peer_pref:
            pre = wire.PREFACE
        if parts[0] == "rx":
            st.peer_pref = False
            if pend:
                try:
                    c.ping(b"PENDING!")          # queued, not collected
                except Exception:  # noqa: BLE001
                    return Step("pend-not-possible", viols, prune=True)
            if parts[1] == "bad":
                o = H.recv(c, pre + wire.settings([(wire.S_ENABLE_PUSH, 2)]).serialize())
                st.dead = True
                kinds = [(f.type, f.f.get("opaque")) for f in o.frames]
                want = ([(wire.PING, b"PENDING!")] if pend else []) + [(wire.GOAWAY, None)]
                if o.kind != "raise" or o.wire_error or kinds != want:
                    bad("output-around-connection-error", "invalid SETTINGS%s -> %s %s" % (
                        " with a PING queued before it" if pend else "", o.brief(), o.wire_error or ""), pending=pend)
                return Step("rx-bad", viols, prune=not viols)
            if parts[1] == "ack":
                o = H.recv(c, pre + wire.settings([], ack=True).serialize())
                exp_ack = False
                if o.kind == "ok" and o.frames:
                    bad("ack-answered", "a SETTINGS ACK was answered with %s" % [f.brief() for f in o.frames])
            elif parts[1] == "mfs+hts":
                v = int(parts[2])
                o = H.recv(c, pre + wire.settings([(wire.S_HEADER_TABLE_SIZE, 4096), (wire.S_MAX_FRAME_SIZE, v)]).serialize())
                if o.kind == "ok":
                    st.F = v
                exp_ack = True
            elif parts[1] == "mfs":
                v = int(parts[2])
                o = H.recv(c, pre + wire.settings([(wire.S_MAX_FRAME_SIZE, v)]).serialize())
                if o.kind == "ok":
                    st.F = v
                exp_ack = True
            elif parts[1] == "settings-empty":
                # a SETTINGS frame without parameters is acknowledged like any other
                o = H.recv(c, pre + wire.settings([]).serialize())
                exp_ack = True
            elif parts[1] == "ping":
                o = H.recv(c, pre + wire.ping(b"87654321").serialize())
                exp_ack = False
            else:
                o = H.recv(c, pre + wire.settings([(wire.S_INITIAL_WINDOW_SIZE, 100000)]).serialize())
                exp_ack = True
            if o.kind != "ok":
                st.dead = True
                return Step("rx-rejected", viols, prune=True)
            if pend:
                if not (o.frames and o.frames[0].type == wire.PING and o.frames[0].f["opaque"] == b"PENDING!" and not o.frames[0].f["ack"]):
                    bad("earlier-output-overtaken", "a PING was queued before %s was received, but the output is %s" % (lab, [f.brief() for f in o.frames]),
                        reply=parts[1])
                o.frames = [f for f in o.frames if not (f.type == wire.PING and f.f["opaque"] == b"PENDING!")]
            check_frames(o, st.F, bad, lab)
            if parts[1] == "ping":
                expect_single(o, bad, lab, wire.PING, 0, ack=True, opaque=b"87654321")
            if exp_ack:
                expect_single(o, bad, lab, wire.SETTINGS, 0, ack=True, settings=[])
            return Step("rx-" + parts[1], viols)
        if lab == "open:badprio":
            st.badprio = True
            sid = c.get_next_available_stream_id()
            o = H.call(c, "send_headers", sid, H.REQ_POST + [(b"x-late", b"1")], priority_weight=0)
            if o.kind == "ok" or o.raw:
                bad("invalid-priority-not-refused-cleanly", "send_headers with priority_weight=0 -> %s" % o.brief())
                st.dead = True
            return Step("badprio-refused", viols)
        if lab == "open":
            st.nopen += 1
            if self.client:
                sid = 2 * st.nopen - 1 + (2 if 1 in st.hdr_sent and 1 not in st.streams and st.nopen == 1 else 0)
                sid = c.get_next_available_stream_id()
                hdrs = H.REQ_POST + [(b"X-Mixed", b" v ")] + ([(b"x-late", b"1")] if st.badprio else [])
                o = H.call(c, "send_headers", sid, hdrs, priority_weight=200, priority_depends_on=0, priority_exclusive=False)
                if o.kind == "ok" and check_frames(o, st.F, bad, lab):
                    expect_headers_like(o, wire.HEADERS, sid, hdrs, False, (0, 200, False), st.F, bad, lab, dec=st.dec)
                    st.streams.append(sid)
                    st.hdr_sent.add(sid)
            else:
                sid = 2 * st.nopen + 1 if 1 in st.streams or 1 in st.hdr_sent else 2 * st.nopen - 1
                o = H.recv(c, pre + wire.headers(sid, sb(H.REQ_POST)).serialize())
                st.peer_pref = False
                if o.kind == "ok" and not o.frames:
                    st.streams.append(sid)
            if o.kind != "ok":
                st.dead = True
                return Step("open-failed", viols, prune=True)
            return Step("open", viols)
        # ---- sending calls
        sid = int(parts[1]) if len(parts) > 1 and parts[1].isdigit() else None
        if parts[0] == "partial+clear":
            try:
                c.ping(b"DISCARD!")
            except Exception:  # noqa: BLE001
                return Step("partial-not-possible", viols, prune=True)
            first = c.data_to_send(5)
            c.clear_outbound_data_buffer()
            o = H.call(c, "ping", b"abcdefgh")
            if first != wire.ping(b"DISCARD!").serialize()[:5]:
                bad("partial-read-wrong", "data_to_send(5) returned %r" % first)
            if o.kind == "ok":
                expect_single(o, bad, lab, wire.PING, 0, ack=False, opaque=b"abcdefgh")
        elif parts[0] == "ping":
            o = H.call(c, "ping", b"abcdefgh")
            if o.kind == "ok":
                expect_single(o, bad, lab, wire.PING, 0, ack=False, opaque=b"abcdefgh")
        elif parts[0] == "settings":
            d = {wire.S_INITIAL_WINDOW_SIZE: 70000, wire.S_MAX_CONCURRENT_STREAMS: 7} if parts[1] == "2" else {}
            if parts[1] == "mfs":
                d = {wire.S_MAX_FRAME_SIZE: 65536}
            if parts[1] == "dflt":
                # values equal to the ones in force (or, after settings:2, back to them): still one frame with both pairs
                d = {wire.S_INITIAL_WINDOW_SIZE: 65535, wire.S_MAX_FRAME_SIZE: 16384}
            o = H.call(c, "update_settings", d)
            if o.kind == "ok":
                expect_single(o, bad, lab, wire.SETTINGS, 0, ack=False, settings=list(d.items()))
        elif parts[0] == "incr":
            o = H.call(c, "increment_flow_control_window", 5, stream_id=(sid or None))
            if o.kind == "ok":
                expect_single(o, bad, lab, wire.WINDOW_UPDATE, sid or 0, inc=5)
        elif parts[0] == "close":
            code = 0 if parts[1] == "0" else 0xd
            last = c.highest_inbound_stream_id
            o = H.call(c, "close_connection", code, b"dbg" if code else None)
            if o.kind == "ok":
                expect_single(o, bad, lab, wire.GOAWAY, 0, code=code, debug=(b"dbg" if code else b""), last=last)
            st.dead = True
        elif parts[0] == "prio":
            psid = int(parts[1])
            o = H.call(c, "prioritize", psid, weight=256, depends_on=3, exclusive=True)
            if o.kind == "ok":
                expect_single(o, bad, lab, wire.PRIORITY, psid, prio=(3, 256, True))
        elif parts[0] == "altsvc":
            if parts[1] == "origin":
                o = H.call(c, "advertise_alternative_service", b'h2=":8000"', origin=b"example.com")
                if o.kind == "ok":
                    expect_single(o, bad, lab, wire.ALTSVC, 0, origin=b"example.com", field=b'h2=":8000"')
            else:
                o = H.call(c, "advertise_alternative_service", b'h2=":8000"', stream_id=sid)
                if o.kind == "ok":
                    expect_single(o, bad, lab, wire.ALTSVC, sid, origin=b"", field=b'h2=":8000"')
        elif parts[0] == "data":
            pad = 7 if "pad" in parts else None
            es = "es" in parts
            need_hdr = (not self.client) and sid not in st.hdr_sent
            if need_hdr:
                o = H.call(c, "send_headers", sid, H.RESP)
                st.hdr_sent.add(sid)
                if o.kind == "ok" and check_frames(o, st.F, bad, lab):
                    expect_headers_like(o, wire.HEADERS, sid, H.RESP, False, None, st.F, bad, lab + "(headers)", dec=st.dec)
            o = H.call(c, "send_data", sid, b"payload", end_stream=es, pad_length=pad)
            if o.kind == "ok":
                expect_single(o, bad, lab, wire.DATA, sid, data=b"payload", pad=pad, es=es)
                if es:
                    st.streams.remove(sid)
        elif parts[0] == "end":
            o = H.call(c, "end_stream", sid)
            if o.kind == "ok":
                expect_single(o, bad, lab, wire.DATA, sid, data=b"", pad=None, es=True)
                st.streams.remove(sid)
        elif parts[0] == "rst":
            o = H.call(c, "reset_stream", sid, 8)
            if o.kind == "ok":
                expect_single(o, bad, lab, wire.RST_STREAM, sid, code=8)
                st.streams.remove(sid)
        elif parts[0] == "info":
            o = H.call(c, "send_headers", sid, [(b":status", b"103"), (b"link", b"</x>")])
            if o.kind == "ok" and check_frames(o, st.F, bad, lab):
                expect_headers_like(o, wire.HEADERS, sid, [(b":status", b"103"), (b"link", b"</x>")], False, None, st.F, bad, lab, dec=st.dec)
        elif parts[0] == "bighdr":
            # trailers / response whose block needs CONTINUATION frames at the current limit
            big = [(b"x-big", b"Z" * (st.F + 100 if st.F < 2 ** 20 else 70000))]
            if self.client or sid in st.hdr_sent:
                hdrs, es = big, True
            else:
                hdrs, es = H.RESP + big, False
                st.hdr_sent.add(sid)
            o = H.call(c, "send_headers", sid, hdrs, end_stream=es)
            if o.kind == "ok" and check_frames(o, st.F, bad, lab):
                expect_headers_like(o, wire.HEADERS, sid, hdrs, es, None, st.F, bad, lab, dec=st.dec)
                if es:
                    st.streams.remove(sid)
        elif parts[0] == "push":
            promised = c.get_next_available_stream_id()
            hdrs = H.REQ + [(b"x-big", b"Z" * (st.F - 20 if st.F < 2 ** 20 else 100))]
            o = H.call(c, "push_stream", sid, promised, hdrs)
            if o.kind == "ok" and check_frames(o, st.F, bad, lab):
                expect_headers_like(o, wire.PUSH_PROMISE, sid, hdrs, False, None, st.F, bad, lab, promised=promised, dec=st.dec)
                if promised not in st.streams and len(st.streams) < 3:
                    st.streams.append(promised)      # the server may now send the pushed response on it
        else:
            raise ValueError(lab)
        if o.kind == "ok":
            check_frames(o, st.F, bad, lab)
            out += "-ok"
        else:
            if o.raw:
                # whatever the exception, these bytes are now part of what data_to_send returns
                check_frames(o, st.F, bad, lab + " (raised %s)" % o.exc_name)
                bad("refused-call-emitted", "%s raised %s but emitted %s" % (lab, o.exc_name, o.brief()))
            out += "-refused"
            st.dead = True          # refused calls are C29/C01 business; stop here
            return Step(out, viols, prune=not viols)
        if viols:
            st.dead = True
        return Step(out, viols)


def make_spec(key):
    return Spec(key)


# ------------------------------------------------------------------ (b) fan-outs

def base_for(client, F):
    h = H.Solo(client, peer_settings=[(wire.S_MAX_FRAME_SIZE, F), (wire.S_INITIAL_WINDOW_SIZE, 2 ** 31 - 1)])
    h.rx([wire.window_update(0, 2 ** 31 - 1 - 65535)])
    if client:
        h.api("send_headers", 1, H.ni(H.REQ_POST))
    else:
        h.rx([wire.headers(1, sb(H.REQ_POST))])
        h.api("send_headers", 1, H.ni(H.RESP))
    return pickle.dumps(h.conn)


_BASE = {}


def base(client, F):
    k = (client, F)
    if k not in _BASE:
        _BASE[k] = base_for(client, F)
    return _BASE[k]


def fan_job(job):
    fam, client, F = job["fam"], job["client"], job["F"]
    viols, outcomes = {}, {}
    n = nt = 0
    blob = base(client, F)

    def mkbad(case):
        def bad(kind, msg, **sig):
            s = {"kind": kind, "fam": fam, "role": "client" if client else "server"}
            s.update(sig)
            k = repr(sorted(s.items()))
            if k not in viols:
                viols[k] = {"kind": kind, "sig": s, "msg": "[F=%d] %s" % (F, msg), "case": case}
        return bad

    def count(k):
        outcomes[fam + ":" + k] = outcomes.get(fam + ":" + k, 0) + 1

    if fam == "data":
        for pad in job["pads"]:
            over = 0 if pad is None else pad + 1
            for size in sorted(set(x for x in (0, 1, F - over - 2, F - over - 1, F - over, F - over + 1) if x >= 0)):
                for es in (False, True):
                    c = pickle.loads(blob)
                    o = H.call(c, "send_data", 1, b"d" * size, end_stream=es, pad_length=pad)
                    n += 1
                    what = "send_data(1, %d bytes, pad=%r, es=%s)" % (size, pad, es)
                    bad = mkbad({"fam": fam, "client": client, "F": F, "pad": pad, "size": size, "es": es})
                    if size + over <= F:
                        count("fits")
                        if o.kind != "ok":
                            bad("fitting-data-refused", "%s refused: %s" % (what, o.brief()), exc=o.exc_name)
                        elif check_frames(o, F, bad, what):
                            expect_single(o, bad, what, wire.DATA, 1, data=b"d" * size, pad=pad, es=es, fcl=size + over)
                    else:
                        count("too-large")
                        nt += 1
                        if o.kind == "ok":
                            check_frames(o, F, bad, what)
                            bad("oversize-data-accepted", "%s accepted: %s" % (what, o.brief()))
                        elif o.exc_name not in ("FrameTooLargeError", "FlowControlError") or o.raw:
                            # refused, but not cleanly: a backstop fired after the frame had been queued
                            if o.raw:
                                check_frames(o, F, bad, what + " (raised %s)" % o.exc_name)
                            bad("oversize-data-not-refused-cleanly", "%s raised %s and left %d bytes in the output" % (what, o.exc_name, len(o.raw)),
                                exc=o.exc_name)
    elif fam == "prio":
        if not client:
            return {"evaluations": 0, "outcomes": {}, "nontrivial": 0, "violations": [], "samples": []}
        for w in job["weights"]:
            for dep in (None, 0, 7, 2 ** 31 - 1):
                for ex in (None, False, True):
                    want = (dep or 0, w if w is not None else 16, bool(ex))
                    c = pickle.loads(blob)
                    o = H.call(c, "prioritize", 5, weight=w, depends_on=dep, exclusive=ex)
                    n += 1
                    count("prioritize")
                    what = "prioritize(5, %r, %r, %r)" % (w, dep, ex)
                    bad = mkbad({"fam": fam, "client": client, "F": F, "w": w, "dep": dep, "ex": ex})
                    if o.kind != "ok":
                        bad("valid-priority-refused", "%s -> %s" % (what, o.brief()))
                    elif check_frames(o, F, bad, what):
                        expect_single(o, bad, what, wire.PRIORITY, 5, prio=want)
                    if w is None and dep is None and ex is None:
                        continue
                    c = pickle.loads(blob)
                    o = H.call(c, "send_headers", 3, H.REQ, priority_weight=w, priority_depends_on=dep, priority_exclusive=ex)
                    n += 1
                    count("headers+priority")
                    what = "send_headers(3, REQ, priority %r, %r, %r)" % (w, dep, ex)
                    if o.kind != "ok":
                        bad("valid-priority-refused", "%s -> %s" % (what, o.brief()))
                    elif check_frames(o, F, bad, what):
                        expect_headers_like(o, wire.HEADERS, 3, H.REQ, False, want, F, bad, what)
    elif fam == "hdrsize":
        base_h = H.REQ if client else [(b"x-t", b"1")]
        for target in job["targets"]:
            try:
                hdrs = H.sized_headers(base_h, target, never_indexed=True)
            except ValueError:
                continue
            for prio in ((False, True) if client else (False,)):
                c = pickle.loads(blob)
                kw = {"priority_weight": 3} if prio else {}
                if client:
                    o = H.call(c, "send_headers", 3, hdrs, **kw)
                    sid, es = 3, False
                else:
                    o = H.call(c, "send_headers", 1, hdrs, end_stream=True)
                    sid, es = 1, True
                n += 1
                nt += 1
                count("headers")
                what = "send_headers with a %d-byte block%s" % (target, " + priority" if prio else "")
                bad = mkbad({"fam": fam, "client": client, "F": F, "target": target, "prio": prio, "push": False})
                if o.kind != "ok":
                    bad("valid-headers-refused", "%s -> %s (%s)" % (what, o.brief(), o.where), exc=o.exc_name, prio=prio)
                elif check_frames(o, F, bad, what):
                    expect_headers_like(o, wire.HEADERS, sid, hdrs, es, (0, 3, False) if prio else None, F, bad, what)
            if not client:
                c = pickle.loads(blob)
                hp = H.sized_headers(H.REQ, target, never_indexed=True)
                o = H.call(c, "push_stream", 1, 2, hp)
                n += 1
                nt += 1
                count("push")
                what = "push_stream with a %d-byte block" % target
                bad = mkbad({"fam": fam, "client": client, "F": F, "target": target, "prio": False, "push": True})
                if o.kind != "ok":
                    bad("valid-headers-refused", "%s -> %s (%s)" % (what, o.brief(), o.where), exc=o.exc_name, push=True)
                elif check_frames(o, F, bad, what):
                    expect_headers_like(o, wire.PUSH_PROMISE, 1, hp, False, None, F, bad, what, promised=2)
    elif fam == "misc":
        for code in (0, 1, 0xd, 0xffffffff):
            c = pickle.loads(blob)
            o = H.call(c, "reset_stream", 1, code)
            n += 1
            count("reset")
            bad = mkbad({"fam": fam, "client": client, "F": F, "what": "reset", "code": code})
            if o.kind == "ok":
                expect_single(o, bad, "reset_stream(1, %d)" % code, wire.RST_STREAM, 1, code=code)
            else:
                bad("valid-call-refused", "reset_stream(1, %d) -> %s" % (code, o.brief()))
            for dbg in (None, b"", b"x" * 300):
                for last in (None, 0, 7):
                    c = pickle.loads(blob)
                    o = H.call(c, "close_connection", code, dbg, last)
                    n += 1
                    count("close")
                    bad = mkbad({"fam": fam, "client": client, "F": F, "what": "close", "code": code})
                    if o.kind == "ok":
                        expect_single(o, bad, "close_connection(%d, %r, %r)" % (code, dbg, last), wire.GOAWAY, 0, code=code,
                                      debug=dbg or b"", last=(last if last is not None else (0 if client else 1)))
                    else:
                        bad("valid-call-refused", "close_connection(%d) -> %s" % (code, o.brief()))
        for inc in (1, 2 ** 31 - 1):
            for sid in (None, 1):
                c = pickle.loads(blob)
                # make room: the library refuses to advertise beyond 2^31-1, so start from a consumed window is not possible; use 1
                o = H.call(c, "increment_flow_control_window", inc, stream_id=sid)
                n += 1
                count("increment")
                bad = mkbad({"fam": fam, "client": client, "F": F, "what": "incr", "inc": inc})
                if o.kind == "ok":
                    expect_single(o, bad, "increment_flow_control_window(%d, %r)" % (inc, sid), wire.WINDOW_UPDATE, sid or 0, inc=inc)
        ids = [1, 3, 4, 6, 0x10, 0xff, 0x100, 0x102, 0xffff]
        for k in range(0, 4):
            for combo in itertools.permutations(ids[:5], k) if k < 3 else [(4, 3, 1), (1, 3, 4), (6, 0x10, 4)]:
                d = {i: (100 + i) for i in combo}
                c = pickle.loads(blob)
                o = H.call(c, "update_settings", d)
                n += 1
                count("settings")
                bad = mkbad({"fam": fam, "client": client, "F": F, "what": "settings", "ids": list(combo)})
                if o.kind == "ok":
                    expect_single(o, bad, "update_settings(%r)" % d, wire.SETTINGS, 0, ack=False, settings=list(d.items()))
                else:
                    bad("valid-call-refused", "update_settings(%r) -> %s" % (d, o.brief()))
        for i in ids[5:]:
            d = {i: 0}
            c = pickle.loads(blob)
            o = H.call(c, "update_settings", d)
            n += 1
            nt += 1
            count("settings-wide-id")
            bad = mkbad({"fam": fam, "client": client, "F": F, "what": "settings", "ids": [i]})
            if o.kind == "ok":
                if len(o.frames) == 1 and o.frames[0].type == wire.SETTINGS and [tuple(x) for x in o.frames[0].f["settings"]] != [(i, 0)]:
                    bad("settings-identifier-altered", "update_settings({0x%x: 0}) put %r on the wire" % (i, o.frames[0].f["settings"]),
                        wide=(i > 0xff))
                else:
                    expect_single(o, bad, "update_settings(%r)" % d, wire.SETTINGS, 0, ack=False, settings=[(i, 0)])
        for p in (b"\0" * 8, b"\xff" * 8, b"12345678"):
            c = pickle.loads(blob)
            o = H.call(c, "ping", p)
            n += 1
            count("ping")
            bad = mkbad({"fam": fam, "client": client, "F": F, "what": "ping"})
            if o.kind == "ok":
                expect_single(o, bad, "ping(%r)" % p, wire.PING, 0, ack=False, opaque=p)
            else:
                bad("valid-call-refused", "ping -> %s" % o.brief())
    return {"evaluations": n, "outcomes": outcomes, "nontrivial": nt, "violations": list(viols.values()),
            "samples": [{"fanout": fam, "role": "client" if client else "server", "F": F}]}


def replay(rec):
    case = rec.get("case")
    if not case:
        return None
    job = {"fam": case["fam"], "client": case["client"], "F": case["F"]}
    if case["fam"] == "data":
        job["pads"] = [case["pad"]]
    elif case["fam"] == "prio":
        job["weights"] = [case["w"]]
    elif case["fam"] == "hdrsize":
        job["targets"] = [case["target"]]
    return fan_job(job)["violations"]


def run(ctx):
    quick = ctx.tier == "quick"
    for role in ("server", "client"):
        ctx.explore(("c02", role, ctx.tier), time_budget=None if quick else 240)
    jobs = []
    for client in (False, True):
        for F in FRAME_LIMITS:
            full = (not quick) or F in FRAME_LIMITS[:2]
            pads = [None] + (list(range(256)) if full else [0, 1, 127, 254, 255])
            if F == 2 ** 24 - 1 and quick:
                pads = [None, 0, 255]
            for i in range(0, len(pads), 16):
                jobs.append({"fam": "data", "client": client, "F": F, "pads": pads[i:i + 16]})
            ws = [None] + (list(range(1, 257)) if full else [1, 16, 255, 256])
            for i in range(0, len(ws), 32):
                jobs.append({"fam": "prio", "client": client, "F": F, "weights": ws[i:i + 32]})
            if F <= 2 ** 15:
                targets = list(range(F - 8, F + 9)) + list(range(2 * F - 2, 2 * F + 3)) + [3 * F]
                for i in range(0, len(targets), 4):
                    jobs.append({"fam": "hdrsize", "client": client, "F": F, "targets": targets[i:i + 4]})
            jobs.append({"fam": "misc", "client": client, "F": F})
    ctx.fanout("c02-arguments-%s" % ctx.tier, jobs, "fan_job", domain="%d fan-out jobs over 2 roles x 4 frame-size limits" % len(jobs))
    ctx.fanouts[-1]["states"] = 8
