"""C10 - concurrent-stream limits are respected and enforced.

Explicit-state BFS of one real connection (each role) in product with the
RFC 7540 5.1 / 5.1.2 stream model (count of open + half-closed streams per
initiator; reserved streams excluded).  Limits are drawn from {0, 1, 2}.
Actions: local and peer stream openings (sequential ids), closings by
END_STREAM in each direction, resets in each direction, pushes (reserved, then
activated by the response HEADERS), peer SETTINGS MAX_CONCURRENT_STREAMS
(immediate), local update_settings with the ACK arriving at any later point,
and the explicit cleanup.

Oracle: open_outbound_streams / open_inbound_streams (read on a clone, since
reading them mutates) equal the model counts; a send that would take the
outbound count above the peer's current limit raises TooManyStreamsError and
otherwise succeeds; a peer HEADERS that would take the inbound count above
the ACKNOWLEDGED local limit is rejected (stream or connection error) and is
accepted otherwise; a HEADERS that opens nothing is never rejected for
concurrency reasons.
"""
import pickle

from .. import harness as H
from .. import wire
from ..canon import fingerprint
from ..explorer import Step
from ..models import streams as SM

PROPERTY = "C10"
LIMITS = [0, 1, 2]
ALPHABET = "open next local / peer stream (+-END_STREAM); END_STREAM each way; reset each way; reset by the library itself (send-window overflow); late HEADERS on a stream we reset; push + activation; client: ENABLE_PUSH=0 + ACK later (streams promised before still open and count); DATA+END_STREAM above the frame limit (refused, closes nothing); peer SETTINGS MCS in {0,1,2}; update_settings MCS in {0,1,2} + ACK later; cleanup"
BOUNDS = {"quick": "depth 6, <=3 streams per initiator", "thorough": "depth 8 (or time budget, reported), <=4 streams per initiator"}
sb = H.stateless_block
BIG = 10 ** 9


class S:
    pass


class Spec:
    def __init__(self, key):
        _, role, tier = key
        self.client = role == "client"
        self.tier = tier
        self.name = "c10-%s-%s" % (role, tier)
        self.max_depth = 6 if tier == "quick" else 8
        self.max_ids = 3 if tier == "quick" else 4

    def initial(self):
        st = S()
        st.h = H.Solo(self.client)
        st.h.rx([wire.settings([], ack=True)])
        st.local_limit = 100      # acknowledged
        st.pending = []
        st.push_off = False      # our ENABLE_PUSH=0 has been acknowledged
        st.push0_sent = False
        st.badset = False
        st.badopen = False
        st.remote_limit = BIG
        st.dead = False
        return [("start", st)]

    def fingerprint(self, st):
        return fingerprint(st.h.conn, st.h.m.key(), st.local_limit, tuple(st.pending), st.remote_limit, st.dead, st.push_off, st.push0_sent, st.badset, st.badopen)

    def actions(self, st):
        if st.dead:
            return []
        m = st.h.m
        acts = []
        n_local = sum(1 for s in m.streams.values() if s.local_init)
        n_peer = sum(1 for s in m.streams.values() if not s.local_init)
        if self.client:
            if n_local < self.max_ids:
                acts += ["l:open", "l:open:es"]
                if not st.badopen:
                    acts.append("l:openbad")      # refused for its priority fields: opens nothing, and a retry is judged as a first try
            if n_peer < self.max_ids and not st.push_off:
                acts += ["rx:push"]
            if not st.push0_sent and not st.pending:
                # (never in flight together with a MAX_CONCURRENT_STREAMS change: the library matches ACKs to settings per
                # key, C11's known finding, and would apply the other change one ACK early)
                acts.append("l:push0")
        else:
            if n_peer < self.max_ids:
                acts += ["rx:open", "rx:open:es"]
            if n_local < self.max_ids:
                acts += ["l:push"]
        for sid, s in sorted(m.streams.items()):
            if s.state == SM.CLOSED:
                continue
            if s.state in (SM.OPEN, SM.HC_REMOTE):
                acts.append("l:end:%d" % sid)
                acts.append("l:bigend:%d" % sid)
            if s.state in (SM.OPEN, SM.HC_LOCAL):
                acts.append("rx:end:%d" % sid)
            if s.state == SM.RES_LOCAL:
                acts += ["l:activate:%d" % sid, "l:activate:%d:es" % sid, "l:badactivate:%d" % sid]
            if not self.client and not s.local_init and s.sent == "none" and s.state in (SM.OPEN, SM.HC_REMOTE):
                acts.append("l:info:%d" % sid)          # an informational response: no transition, nothing to count
                acts.append("l:badresp:%d" % sid)       # a response refused for its header list: nothing happens, nothing to count
            if s.state == SM.RES_REMOTE:
                acts += ["rx:activate:%d" % sid, "rx:activate:%d:es" % sid]
            acts.append("l:rst:%d" % sid)
            acts.append("rx:rst:%d" % sid)
            if s.state in (SM.OPEN, SM.HC_REMOTE):
                acts.append("rx:wuover:%d" % sid)     # the peer overflows our send window: the library resets the stream itself
        for sid, s in sorted(m.streams.items()):
            if s.state == SM.CLOSED and s.closed_by == "send_rst" and not s.local_init:
                acts.append("rx:late:%d" % sid)       # the peer's HEADERS + END_STREAM that raced our reset: opens nothing
                break
        if not st.badset:
            # update_settings({MAX_CONCURRENT_STREAMS: 0, INITIAL_WINDOW_SIZE: 2^31}): refused as a whole, nothing of it is queued
            acts.append("l:mcsbad:0")
        for v in LIMITS:
            acts.append("rx:mcs:%d" % v)
            if "push0" not in st.pending:
                acts.append("l:mcs:%d" % v)
        if st.pending:
            acts.append("rxack")
        acts.append("cleanup")
        return acts

    def apply(self, st, lab):
        viols = []
        h = st.h
        m = h.m

        def bad(kind, msg, **sig):
            s = {"kind": kind, "role": "client" if self.client else "server"}
            s.update(sig)
            viols.append({"kind": kind, "sig": s, "msg": msg})

        parts = lab.split(":")
        es = parts[-1] == "es"
        out = ":".join(p for p in parts[:2])
        n_out = m.count_open(True)
        n_in = m.count_open(False)
        if lab == "cleanup":
            h.cleanup()
        elif lab == "rxack":
            v = st.pending.pop(0)
            o = h.rx([wire.settings([], ack=True)])
            if o.kind != "ok":
                bad("settings-ack-rejected", o.brief())
            if v == "push0":
                st.push_off = True        # no further promises; streams promised before still count when they open
            else:
                st.local_limit = v
        elif lab == "l:push0":
            o = h.api("update_settings", {wire.S_ENABLE_PUSH: 0})
            if o.kind != "ok":
                bad("update-settings-refused", o.brief())
            else:
                st.pending.append("push0")
                st.push0_sent = True
        elif parts[:2] == ["l", "bigend"]:
            # DATA + END_STREAM larger than the peer's MAX_FRAME_SIZE: refused, and a refused call closes nothing
            o = h.api("send_data", int(parts[2]), b"x" * 16385, end_stream=True)
            if o.kind == "ok" or o.raw:
                bad("oversized-data-not-refused", "%s -> %s" % (lab, o.brief()))
                st.dead = True
                return Step("bigend-accepted", viols, prune=True)
        elif parts[:2] == ["l", "mcs"]:
            v = int(parts[2])
            o = h.api("update_settings", {wire.S_MAX_CONCURRENT_STREAMS: v})
            if o.kind != "ok":
                bad("update-settings-refused", o.brief())
            else:
                st.pending.append(v)
        elif parts[:2] == ["rx", "mcs"]:
            v = int(parts[2])
            o = h.rx([wire.settings([(wire.S_MAX_CONCURRENT_STREAMS, v)])])
            if o.kind != "ok":
                bad("settings-rejected", o.brief())
            st.remote_limit = v
        elif parts[:2] in (["l", "open"], ["l", "activate"]):
            if parts[1] == "open":
                sid = m.hi_local + 2 if m.hi_local else 1
                o = h.api("send_headers", sid, H.ni(H.REQ_POST), end_stream=es)
            else:
                sid = int(parts[2])
                o = h.api("send_headers", sid, H.ni(H.RESP), end_stream=es)
            over = n_out + 1 > st.remote_limit
            if over:
                if o.kind == "ok":
                    bad("outbound-limit-exceeded", "%s: %d outbound streams open, peer limit %d, send succeeded: %s" % (
                        lab, n_out, st.remote_limit, o.brief()), via=parts[1])
                    st.dead = True
                    return Step(out + "-over-limit-accepted", viols, prune=True)
                if o.exc_name != "TooManyStreamsError":
                    bad("wrong-refusal", "%s over the limit raised %s, expected TooManyStreamsError" % (lab, o.exc_name), via=parts[1], exc=o.exc_name)
                if o.raw:
                    bad("refused-open-emitted", "%s raised but emitted %s" % (lab, o.brief()))
                out += "-refused"
            else:
                if o.kind != "ok":
                    bad("opening-under-limit-refused", "%s: %d outbound streams open, peer limit %d, refused: %s" % (
                        lab, n_out, st.remote_limit, o.brief()), via=parts[1], exc=o.exc_name)
                    st.dead = True
                    return Step(out + "-refused-under-limit", viols, prune=True)
                out += "-ok"
        elif parts[:2] in (["rx", "open"], ["rx", "activate"]):
            if parts[1] == "open":
                sid = m.hi_peer + 2 if m.hi_peer else 1
                o = h.rx([wire.headers(sid, sb(H.REQ_POST), es=es)], ("headers", sid, es, False))
            else:
                sid = int(parts[2])
                o = h.rx([wire.headers(sid, sb(H.RESP), es=es)], ("headers", sid, es, False))
            over = n_in + 1 > st.local_limit
            rejected = o.kind == "raise" or any(f.type == wire.RST_STREAM and f.sid == sid for f in o.frames)
            if over and not rejected:
                bad("inbound-limit-not-enforced", "%s: %d inbound streams open, acknowledged local limit %d, HEADERS accepted: %s" % (
                    lab, n_in, st.local_limit, o.brief()), via=parts[1])
                st.dead = True
                return Step(out + "-over-limit-accepted", viols, prune=True)
            if not over and rejected:
                bad("inbound-under-limit-rejected", "%s: %d inbound streams open, acknowledged local limit %d (pending %r), HEADERS rejected: %s" % (
                    lab, n_in, st.local_limit, st.pending, o.brief()), via=parts[1], pending=bool(st.pending))
                st.dead = True
                return Step(out + "-rejected-under-limit", viols, prune=True)
            if o.kind == "raise":
                st.dead = True
                return Step(out + "-conn-error", viols, prune=True)
            out += "-rejected" if rejected else "-ok"
        elif parts[:2] == ["l", "openbad"]:
            st.badopen = True
            sid = m.hi_local + 2 if m.hi_local else 1
            o = h.api("send_headers", sid, H.ni(H.REQ_POST), priority_weight=300)
            if o.kind == "ok" or o.raw:
                bad("invalid-priority-accepted", "%s -> %s" % (lab, o.brief()))
                st.dead = True
                return Step("openbad-accepted", viols, prune=True)
        elif parts[:2] == ["l", "badresp"]:
            o = h.api("send_headers", int(parts[2]), H.ni(H.RESP + [(b"te", b"gzip")]))
            if o.kind == "ok" or o.raw:
                bad("invalid-headers-accepted", "%s -> %s" % (lab, o.brief()))
                st.dead = True
                return Step("badresp-accepted", viols, prune=True)
        elif parts[:2] == ["l", "mcsbad"]:
            st.badset = True
            o = h.api("update_settings", {wire.S_MAX_CONCURRENT_STREAMS: int(parts[2]), wire.S_INITIAL_WINDOW_SIZE: 2 ** 31})
            if o.kind == "ok" or o.raw:
                bad("invalid-settings-accepted", "%s -> %s" % (lab, o.brief()))
                st.dead = True
                return Step("mcsbad-accepted", viols, prune=True)
        elif parts[:2] == ["l", "badactivate"]:
            # response headers the library must refuse (TE other than trailers): the promised stream stays reserved
            o = h.api("send_headers", int(parts[2]), H.ni(H.RESP + [(b"te", b"gzip")]))
            if o.kind == "ok" or o.raw:
                bad("invalid-headers-accepted", "%s -> %s" % (lab, o.brief()))
                st.dead = True
                return Step("badactivate-accepted", viols, prune=True)
        elif parts[:2] == ["l", "info"]:
            o = h.api("send_headers", int(parts[2]), H.ni([(b":status", b"103")]))
            if o.kind != "ok":
                bad("informational-refused", "%s -> %s" % (lab, o.brief()))
                st.dead = True
                return Step("info-refused", viols, prune=True)
        elif parts[:2] == ["l", "push"]:
            parents = [s for s, x in sorted(m.streams.items()) if not x.local_init and x.state in (SM.OPEN, SM.HC_REMOTE)]
            if not parents or st.h.conn.remote_settings.enable_push == 0:
                return Step("push-no-parent", viols, prune=True)
            sid = m.hi_local + 2 if m.hi_local else 2
            o = h.api("push_stream", parents[0], sid, H.ni(H.REQ))
            if o.kind != "ok":
                bad("push-refused", "push_stream(%d,%d) (reserved streams do not count) -> %s" % (parents[0], sid, o.brief()), exc=o.exc_name)
                st.dead = True
                return Step("push-refused", viols, prune=True)
        elif parts[:2] == ["rx", "push"]:
            parents = [s for s, x in sorted(m.streams.items()) if x.local_init and x.state in (SM.OPEN, SM.HC_LOCAL)]
            if not parents:
                return Step("push-no-parent", viols, prune=True)
            sid = m.hi_peer + 2 if m.hi_peer else 2
            o = h.rx([wire.push_promise(parents[0], sid, sb(H.REQ))], ("push", parents[0], sid))
            if o.kind != "ok" or any(f.type == wire.RST_STREAM for f in o.frames):
                bad("push-promise-rejected", "PUSH_PROMISE(%d->%d) (reserved streams do not count) -> %s" % (parents[0], sid, o.brief()))
                st.dead = True
                return Step("push-rejected", viols, prune=True)
        elif parts[:2] == ["l", "end"]:
            sid = int(parts[2])
            s = m.streams[sid]
            if s.sent == "none":
                o = h.api("send_headers", sid, H.ni(H.RESP), end_stream=True)
            else:
                o = h.api("end_stream", sid)
            if o.kind != "ok":
                bad("end-refused", "%s -> %s" % (lab, o.brief()))
        elif parts[:2] == ["rx", "end"]:
            sid = int(parts[2])
            s = m.streams[sid]
            if s.recv == "none":
                o = h.rx([wire.headers(sid, sb(H.RESP), es=True)], ("headers", sid, True, False))
            else:
                o = h.rx([wire.data(sid, b"", es=True)], ("data", sid, True))
            if o.kind != "ok" or o.frames:
                bad("valid-end-rejected", "%s (concurrency must not matter for a frame that opens nothing) -> %s" % (lab, o.brief()))
                st.dead = True
                return Step("end-rejected", viols, prune=True)
        elif parts[:2] == ["l", "rst"]:
            o = h.api("reset_stream", int(parts[2]))
            if o.kind != "ok":
                bad("reset-refused", "%s -> %s" % (lab, o.brief()))
        elif parts[:2] == ["rx", "wuover"]:
            sid = int(parts[2])
            o = h.rx([wire.window_update(sid, 2 ** 31 - 1)])
            if o.kind != "ok" or not any(f.type == wire.RST_STREAM and f.sid == sid for f in o.frames):
                bad("window-overflow-not-a-stream-error", "%s -> %s" % (lab, o.brief()))
                st.dead = True
                return Step("wuover-unexpected", viols, prune=True)
        elif parts[:2] == ["rx", "late"]:
            sid = int(parts[2])
            o = h.rx([wire.headers(sid, sb(H.TRAILERS), es=True)])
            if o.kind != "ok":
                bad("late-frame-rejected", "%s: %d inbound streams open, acknowledged local limit %d; HEADERS on a stream we reset opens nothing "
                    "but -> %s %s" % (lab, n_in, st.local_limit, o.brief(), o.msg), exc=o.exc_name)
                st.dead = True
                return Step("late-rejected", viols, prune=True)
        elif parts[:2] == ["rx", "rst"]:
            o = h.rx([wire.rst_stream(int(parts[2]), 8)], ("rst", int(parts[2])))
            if o.kind != "ok":
                bad("rst-rejected", "%s -> %s" % (lab, o.brief()))
        else:
            raise ValueError(lab)
        # ---- counters (on a clone: reading them mutates the connection)
        if not viols:
            c = pickle.loads(pickle.dumps(h.conn))
            got = (c.open_outbound_streams, c.open_inbound_streams)
            want = (m.count_open(True), m.count_open(False))
            if got != want:
                bad("open-stream-count", "after %s: open_outbound/inbound_streams = %r, RFC model %r (streams: %s)" % (
                    lab, got, want, [(s, x.state) for s, x in sorted(m.streams.items())]), after=":".join(parts[:2]),
                    which=("outbound" if got[0] != want[0] else "inbound"))
        if viols:
            st.dead = True
        return Step(out, viols)


def make_spec(key):
    return Spec(key)


def run(ctx):
    for role in ("server", "client"):
        ctx.explore(("c10", role, ctx.tier), time_budget=None if ctx.tier == "quick" else 300)
