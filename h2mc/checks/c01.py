"""C01 - two h2 endpoints exchange every successful send faithfully.

Explicit-state BFS over a real client and a real server joined by two byte
pipes: programs of public calls on both endpoints AND delivery schedules.  The
default schedule is lock-step (after a call both pipes are drained to
quiescence within the same transition); leaving a call's bytes in flight,
delivering a single frame, splitting a frame (after 1 / 9 bytes), and making a
call that raises are *deviations*, explored up to a deviation bound.  Five
alphabet profiles: (P1) request / informational / response / data / trailers /
end on streams 1 and 3 incl. raising calls; (P2) two concurrent streams with
resets; (P3) push, reset of parent and of promised stream; (P4)
update_settings (INITIAL_WINDOW_SIZE up/down, MAX_FRAME_SIZE, HEADER_TABLE_SIZE,
ENABLE_PUSH, MAX_CONCURRENT_STREAMS, an unknown id) racing traffic; (P5) ping,
prioritize, alt-svc, acknowledge / increment, close.  Start states: before the
handshake bytes were exchanged, after the handshake.

Oracle: (a) receive_data never raises on either side unless that endpoint
itself closed the connection; (b) ledger - every successful call appends the
abstract items it specifies (header lists after the documented normalisation,
body bytes, END_STREAM linkage, trailers, 1xx, reset codes, pushes, ping
payloads, priority fields, settings values, GOAWAY fields, alt-svc) and the
receiver's events must reproduce them exactly and in order; items for a stream
the receiver has reset / seen reset are optional; at quiescence nothing may be
missing; (c) a call that raises adds no bytes and nothing to the ledger - if
it left something behind, the first later step that differs is the violation.
"""
from .. import harness as H
from .. import pair as P
from .. import wire
from ..canon import fingerprint
from ..explorer import Step

PROPERTY = "C01"
ALPHABET = "profiles P1..P12 (see module docstring and PROFILES); deliveries: next frame, first 1 / 9 bytes of next frame, flush"
QUICK_DEPTH = {"P4": 4, "P5": 4, "P1": 5, "P2": 5, "P3": 6, "P6": 6, "P7": 6, "P8": 6, "P9": 6, "P10": 6, "P11": 5, "P12": 4}
BOUNDS = {"quick": "profiles to depth %s, <=1 deviation (a raising call, or one window of non-lock-step delivery), two start states" % (sorted(QUICK_DEPTH.items()),), "thorough": "depth 7, <=2 deviations (or time budget, reported)"}
C, S = P.C, P.S
REQ = H.REQ_POST + [(b"X-Mixed", b" padded "), (b"accept", b"*/*")]
RESP = H.RESP + [(b"Server", b"h2mc"), (b"x-a", b"1")]
INFO = [(b":status", b"103"), (b"link", b"</style.css>")]
TRL = [(b"x-checksum", b"abc")]
HEAD = [(b":method", b"HEAD"), (b":scheme", b"https"), (b":path", b"/h"), (b":authority", b"example.com")]
RESPCL = H.RESP + [(b"content-length", b"5"), (b"x-a", b"1")]
RESP304 = [(b":status", b"304"), (b"etag", b"xyz")]
REQCL = H.REQ_POST + [(b"content-length", b"5"), (b"accept", b"*/*")]
REQCONN = H.REQ_POST + [(b"Connection", b"close"), (b" Keep-Alive ", b"5"), (b"Upgrade\t", b"h2c"), (b"TE", b"trailers"), (b"accept", b"*/*")]
REQBIG = H.REQ_POST + [(b"x-big", b"B" * 20000), (b"accept", b"*/*")]
N = P.norm


def hdr(sid, kind, lst, es):
    return ("headers", sid, kind, N(lst), es)


def calls():
    """label -> (endpoint, method, args, kwargs, [items the peer must report])"""
    T = {}

    def add(label, x, method, args, kw, items):
        T[label] = (x, method, args, kw, items)

    for sid in (1, 3):
        add("c:req%d" % sid, C, "send_headers", (sid, REQ), {}, [hdr(sid, "request", REQ, False)])
        add("c:req%des" % sid, C, "send_headers", (sid, REQ), {"end_stream": True}, [hdr(sid, "request", REQ, True)])
        add("s:resp%d" % sid, S, "send_headers", (sid, RESP), {}, [hdr(sid, "response", RESP, False)])
        add("s:resp%des" % sid, S, "send_headers", (sid, RESP), {"end_stream": True}, [hdr(sid, "response", RESP, True)])
        add("c:rst%d" % sid, C, "reset_stream", (sid, 8), {}, [("reset", sid, 8)])
        add("s:rst%d" % sid, S, "reset_stream", (sid, 2), {}, [("reset", sid, 2)])
    add("s:info1", S, "send_headers", (1, INFO), {}, [hdr(1, "info", INFO, False)])
    for x, p in ((C, "c"), (S, "s")):
        add(p + ":data1", x, "send_data", (1, b"hello"), {}, [("data", 1, b"hello", False)])
        add(p + ":data1es", x, "send_data", (1, b"bye"), {"end_stream": True, "pad_length": 3}, [("data", 1, b"bye", True)])
        add(p + ":end1", x, "end_stream", (1,), {}, [("data", 1, b"", True)])
        add(p + ":trailers1", x, "send_headers", (1, TRL), {"end_stream": True}, [hdr(1, "trailers", TRL, True)])
        add(p + ":ping", x, "ping", (b"pingpong",), {}, [("ping", b"pingpong")])
        add(p + ":incr", x, "increment_flow_control_window", (100,), {}, [])
        add(p + ":incr1", x, "increment_flow_control_window", (100,), {"stream_id": 1}, [])
        add(p + ":ack1", x, "acknowledge_received_data", (5, 1), {}, [])
        add(p + ":close", x, "close_connection", (0, b"done"), {}, [("goaway", 0, None, b"done")])
        add(p + ":set-iws-down", x, "update_settings", ({4: 3},), {}, [("settings", ((4, 3),))])
        add(p + ":set-iws-up", x, "update_settings", ({4: 100000},), {}, [("settings", ((4, 100000),))])
        add(p + ":set-mfs", x, "update_settings", ({5: 32768},), {}, [("settings", ((5, 32768),))])
        add(p + ":set-hts0", x, "update_settings", ({1: 0},), {}, [("settings", ((1, 0),))])
        add(p + ":set-mcs1", x, "update_settings", ({3: 1},), {}, [("settings", ((3, 1),))])
        add(p + ":set-unknown", x, "update_settings", ({0x99: 7},), {}, [("settings", ((0x99, 7),))])
        # calls that must raise and contribute nothing
        add(p + ":set-bad-mixed", x, "update_settings", ({4: 10, 2: 2},), {}, [])      # a valid entry in front of an invalid one
        add(p + ":data5", x, "send_data", (5, b"x"), {}, [])
        add(p + ":trailers1-noes", x, "send_headers", (1, TRL), {}, [hdr(1, "trailers", TRL, False)])
    add("c:set-push0", C, "update_settings", ({2: 0},), {}, [("settings", ((2, 0),))])
    add("c:prio1", C, "prioritize", (1,), {"weight": 200, "depends_on": 3, "exclusive": True}, [("priority", 1, 200, 3, True)])
    add("c:req5prio", C, "send_headers", (5, REQ), {"priority_weight": 7, "priority_depends_on": 1, "end_stream": True},
        [hdr(5, "request", REQ, True), ("priority", 5, 7, 1, False)])
    add("s:push1", S, "push_stream", (1, 2, H.REQ), {}, [("push", 1, 2, N(H.REQ))])
    add("s:resp2es", S, "send_headers", (2, RESP), {"end_stream": True}, [hdr(2, "response", RESP, True)])
    add("s:data2", S, "send_data", (2, b"pushed"), {}, [("data", 2, b"pushed", False)])
    add("c:rst2", C, "reset_stream", (2, 7), {}, [("reset", 2, 7)])
    add("s:altsvc", S, "advertise_alternative_service", (b'h2=":443"',), {"origin": b"example.com"}, [("altsvc", b"example.com", b'h2=":443"')])
    add("s:altsvc1", S, "advertise_alternative_service", (b'h2=":443"',), {"stream_id": 1}, [("altsvc", b"example.com", b'h2=":443"')])
    add("s:resp3-idle", S, "send_headers", (3, RESP), {}, [hdr(3, "response", RESP, False)])
    # P3 extras: a second parent, a second promise (same request list: its block refers to table entries of the first)
    add("s:push3", S, "push_stream", (3, 4, H.REQ), {}, [("push", 3, 4, N(H.REQ))])
    add("s:resp4es", S, "send_headers", (4, RESP), {"end_stream": True}, [hdr(4, "response", RESP, True)])
    # P6: HEAD requests (with and without request trailers) answered with a content-length and no body
    add("c:head1", C, "send_headers", (1, HEAD), {}, [hdr(1, "request", HEAD, False)])
    add("c:head1es", C, "send_headers", (1, HEAD), {"end_stream": True}, [hdr(1, "request", HEAD, True)])
    add("s:resp1cl", S, "send_headers", (1, RESPCL), {}, [hdr(1, "response", RESPCL, False)])
    add("s:resp1cl-es", S, "send_headers", (1, RESPCL), {"end_stream": True}, [hdr(1, "response", RESPCL, True)])
    add("s:resp1-304es", S, "send_headers", (1, RESP304), {"end_stream": True}, [hdr(1, "response", RESP304, True)])
    # P7: a promised stream across INITIAL_WINDOW_SIZE / MAX_FRAME_SIZE changes of the client
    add("s:resp2", S, "send_headers", (2, RESP), {}, [hdr(2, "response", RESP, False)])
    add("s:data2es", S, "send_data", (2, b"pushed"), {"end_stream": True}, [("data", 2, b"pushed", True)])
    add("c:set-iws-6", C, "update_settings", ({4: 6},), {}, [("settings", ((4, 6),))])
    add("c:incr2", C, "increment_flow_control_window", (10,), {"stream_id": 2}, [])
    # P8: bulk - a request whose header block needs CONTINUATION frames, a response body that fills the client's windows
    # exactly, acknowledgements of a part of it, more body
    add("c:reqbig1", C, "send_headers", (1, REQBIG), {}, [hdr(1, "request", REQBIG, False)])
    add("s:fill1", S, "fill", (1,), {}, [])
    add("c:ack1-2000", C, "acknowledge_received_data", (2000, 1), {}, [])
    add("c:ack1-40000", C, "acknowledge_received_data", (40000, 1), {}, [])
    add("s:data1-2000", S, "send_data", (1, b"y" * 2000), {}, [("data", 1, b"y" * 2000, False)])
    add("s:data1pad", S, "send_data", (1, b"p" * 10), {"pad_length": 200}, [("data", 1, b"p" * 10, False)])
    # P9: two changes of the same setting in flight, frames sized between the two values
    add("s:set-mfs-16384", S, "update_settings", ({5: 16384},), {}, [("settings", ((5, 16384),))])
    add("c:data1-20000", C, "send_data", (1, b"q" * 20000), {}, [("data", 1, b"q" * 20000, False)])
    add("c:set-mfs", C, "update_settings", ({5: 32768},), {}, [("settings", ((5, 32768),))])
    add("c:set-mfs-16384", C, "update_settings", ({5: 16384},), {}, [("settings", ((5, 16384),))])
    add("s:data1-20000", S, "send_data", (1, b"q" * 20000), {}, [("data", 1, b"q" * 20000, False)])
    # P10: messages that announce their length (content-length: 5) and carry exactly that much, padded or not
    add("c:req1cl", C, "send_headers", (1, REQCL), {}, [hdr(1, "request", REQCL, False)])
    for x, p in ((C, "c"), (S, "s")):
        add(p + ":hello1", x, "send_data", (1, b"hello"), {}, [("data", 1, b"hello", False)])
        add(p + ":hello1pad", x, "send_data", (1, b"hello"), {"pad_length": 0}, [("data", 1, b"hello", False)])
        add(p + ":hello1pades", x, "send_data", (1, b"hello"), {"pad_length": 9, "end_stream": True}, [("data", 1, b"hello", True)])
    # P11: MAX_FRAME_SIZE raised together with another setting in one call, then frames of the new size
    for x, p in ((C, "c"), (S, "s")):
        add(p + ":set-mfs+mhls", x, "update_settings", ({6: 100000, 5: 32768},), {}, [("settings", ((5, 32768), (6, 100000)))])
    # P12 (the client does not validate what it sends): connection-specific fields written the HTTP/1.1 way are removed by the
    # documented normalisation all the same - the peer never sees them
    add("c:req1conn", C, "send_headers", (1, REQCONN), {}, [hdr(1, "request", REQCONN, False)])
    add("c:prio3-w1", C, "prioritize", (3,), {"weight": 1}, [("priority", 3, 1, 0, False)])
    add("c:req7prio-w1", C, "send_headers", (7, REQ), {"priority_weight": 1, "priority_exclusive": True, "end_stream": True},
        [hdr(7, "request", REQ, True), ("priority", 7, 1, 0, True)])
    return T


PROFILES = {
    "P1": ["c:req1", "c:req1es", "c:req3es", "c:data1", "c:data1es", "c:end1", "c:trailers1", "s:info1", "s:resp1", "s:resp1es",
           "s:data1", "s:data1es", "s:end1", "s:trailers1", "c:data5", "c:trailers1-noes", "s:trailers1-noes", "s:resp3-idle"],
    "P2": ["c:req1", "c:req3", "c:req3es", "s:resp1", "s:resp3es", "c:data1", "s:data1", "c:rst1", "s:rst1", "c:rst3", "s:rst3",
           "c:incr1", "s:incr1", "c:end1", "s:data1es"],
    "P3": ["c:req1", "c:req1es", "s:push1", "s:resp2es", "s:data2", "s:resp1es", "c:rst1", "c:rst2", "s:rst1", "c:set-push0", "s:resp1",
           "c:req3", "s:push3", "s:resp3es", "s:resp4es"],
    "P4": ["c:req1", "s:resp1", "c:data1", "s:data1", "c:set-iws-down", "s:set-iws-down", "c:set-iws-up", "s:set-mfs", "c:set-hts0",
           "s:set-hts0", "c:set-mcs1", "s:set-mcs1", "c:set-unknown", "c:set-push0", "c:req3es", "s:resp3es", "c:set-bad-mixed",
           "s:set-bad-mixed"],
    "P5": ["c:req1", "s:resp1", "c:ping", "s:ping", "c:prio1", "c:prio3-w1", "c:req7prio-w1", "c:req5prio", "s:altsvc", "s:altsvc1", "c:incr", "s:incr", "c:ack1",
           "s:ack1", "s:data1", "c:close", "s:close"],
    "P6": ["c:head1", "c:head1es", "c:trailers1", "c:end1", "s:info1", "s:resp1cl", "s:resp1cl-es", "s:resp1-304es", "s:end1", "s:trailers1"],
    "P8": ["c:reqbig1", "c:req1", "s:resp1", "s:fill1", "c:ack1-2000", "c:ack1-40000", "s:data1-2000", "s:data1", "c:data1",
           "s:data1pad", "c:incr"],
    "P9": ["c:req1", "s:resp1", "s:set-mfs", "s:set-mfs-16384", "c:data1-20000", "c:set-mfs", "c:set-mfs-16384", "s:data1-20000"],
    "P12": ["c:req1conn", "c:req1", "s:resp1", "s:resp1es", "c:data1", "c:end1"],
    "P11": ["c:req1", "s:resp1", "s:set-mfs+mhls", "c:set-mfs+mhls", "c:data1-20000", "s:data1-20000"],
    # every body-carrying call below sends the announced five bytes; BODY_GUARD lets each side send them once and end
    # the message only afterwards, so that every program is valid traffic
    "P10": ["c:req1cl", "c:hello1", "c:hello1pad", "c:hello1pades", "c:end1", "c:trailers1", "s:resp1cl", "s:hello1", "s:hello1pad",
            "s:hello1pades", "s:end1", "s:trailers1", "s:info1"],
    "P7": ["c:req1", "s:push1", "s:resp2", "s:data2", "s:data2es", "c:set-iws-down", "c:set-iws-6", "c:set-iws-up", "c:incr2", "s:set-mfs",
           "s:resp1es"],
}


CLIENT_CFG = {"P12": {"validate_outbound_headers": False}}
# P10 only: label -> (body must already have been sent, this call sends it)
BODY_GUARD = {"hello1": (False, True), "hello1pad": (False, True), "hello1pades": (False, True), "end1": (True, False),
              "trailers1": (True, False)}


class Spec:
    def __init__(self, key):
        _, profile, tier = key
        self.profile = profile
        self.tier = tier
        self.name = "c01-%s-%s" % (profile, tier)
        self.max_depth = QUICK_DEPTH.get(profile, 5) if tier == "quick" else 7
        self.dev = 1 if tier == "quick" else 2
        self.T = calls()
        self.menu = PROFILES[profile]

    def initial(self):
        out = []
        for nm, hs in (("handshaken", True), ("handshake-in-flight", False)):
            st = P.PairState(handshake=hs, client_cfg=CLIENT_CFG.get(self.profile))
            st.budget = self.dev
            st.window = not hs
            st.body = [False, False]
            out.append((nm, st))
        return out

    def fingerprint(self, st):
        return fingerprint(st.conn[0], st.conn[1], bytes(st.pipe[0]), bytes(st.pipe[1]), st.ledger, [sorted(g) for g in st.gone],
                           st.closed, st.broken, st.budget, getattr(st, 'window', False), st.raised, st.sset, st.acks, st.overlap, getattr(st, 'body', None), [sorted((k, sorted(v)) for k, v in e.items()) for e in st.es])

    def actions(self, st):
        if st.broken:
            return []
        acts = []
        inflight = bool(st.pipe[C] or st.pipe[S])
        window = getattr(st, "window", False) and inflight
        for lab in self.menu:
            x = self.T[lab][0]
            if st.closed[x]:
                continue
            if self.profile == "P10" and lab[2:] in BODY_GUARD and BODY_GUARD[lab[2:]][0] != st.body[x]:
                continue
            acts.append(lab)                    # lock-step outside a window; left in flight inside one
            if not window and st.budget > 0:
                acts.append(lab + "~hold")      # opens a window: one departure from the lock-step schedule
        if inflight:
            acts.append("flush")                # closes the window
            if window or st.budget > 0:
                for d in ("cs", "sc"):
                    if st.pipe[C if d == "cs" else S]:
                        acts += ["dl:%s:frame" % d, "dl:%s:split1" % d, "dl:%s:split9" % d]
        return acts

    def apply(self, st, lab):
        viols = []

        def bad(kind, msg, **sig):
            s = {"kind": kind, "profile": self.profile}
            s.update(sig)
            viols.append({"kind": kind, "sig": s, "msg": msg})

        inflight = bool(st.pipe[C] or st.pipe[S])
        window = getattr(st, "window", False) and inflight
        if lab == "flush":
            st.window = False
            st.pump(bad, lab)
            st.quiescent_check(bad, lab)
            if viols:
                st.broken = True
            return Step("flush", viols)
        if lab.startswith("dl:"):
            _, d, how = lab.split(":")
            frm = C if d == "cs" else S
            if not window:
                st.budget -= 1
                st.window = True
            buf = st.pipe[frm]
            # frame boundaries of what is in flight
            n = len(buf)
            if buf[:24] == wire.PREFACE[:24] and frm == C and len(buf) >= 24:
                flen = 24
            elif n >= 9:
                flen = 9 + int.from_bytes(buf[:3], "big")
            else:
                flen = n
            k = {"frame": flen, "split1": 1, "split9": min(9, n)}[how]
            k = min(k, n)
            data = bytes(buf[:k])
            del buf[:k]
            st.deliver(1 - frm, data, bad, lab)
            st.quiescent_check(bad, lab)
            if viols:
                st.broken = True
            if not (st.pipe[C] or st.pipe[S]):
                st.window = False
            return Step("deliver-" + how, viols)
        hold = lab.endswith("~hold")
        base = lab[:-5] if hold else lab
        x, method, args, kw, items = self.T[base]
        if hold:
            st.budget -= 1
            st.window = True
        elif window:
            hold = True           # inside a window nothing is pumped until "flush"
        if method == "fill":
            # macro: send DATA on the stream until the send window the library reports is used up exactly
            sid = args[0]
            conn = st.conn[x]
            items = []
            raw = b""
            o = None
            for _ in range(8):
                try:
                    w = conn.local_flow_control_window(sid)
                except Exception:  # noqa: BLE001
                    w = 0
                n = min(w, conn.max_outbound_frame_size)
                if n <= 0:
                    break
                o = H.call(conn, "send_data", sid, b"f" * n)
                raw += o.raw
                if o.kind == "raise":
                    break
                items.append(("data", sid, b"f" * n, False))
            if o is None:
                o = H.call(conn, "send_data", sid, b"f")      # nothing to fill: behaves like a send that must be refused
            else:
                o.raw = raw
            method = "send_data"
        else:
            proj0 = H.quiescent_projection(st.conn[x])
            o = H.call(st.conn[x], method, *args, **kw)
            if o.kind == "raise":
                # "calls that raise contribute nothing": windows, ids, settings, compression context, buffers are as before
                # (a refusal out of a state machine closes that machine - the known finding - so streams / connection
                # state are left out of the comparison then)
                diff = H.projection_diff(proj0, H.quiescent_projection(st.conn[x]))
                if o.via_fsm:
                    diff = [d for d in diff if d not in ("connection state", "live streams")]
                if diff:
                    bad("raising-call-changed-state", "%s raised %s (%s) but changed: %s" % (base, o.exc_name, o.msg, ", ".join(diff)),
                        call=method, exc=o.exc_name, changed=",".join(diff))
        if o.kind == "raise":
            if o.raw:
                bad("raising-call-emitted-bytes", "%s raised %s but emitted %s" % (base, o.exc_name, o.brief()), call=method)
                st.pipe[x] += o.raw
            if not o.is_h2:
                bad("non-h2-exception", "%s raised %s" % (base, o.exc_name), call=method, exc=o.exc_name)
            if st.budget <= 0 and not lab.endswith("~hold"):
                return Step("call-raised-no-budget", viols, prune=not viols)
            if not lab.endswith("~hold"):
                st.budget -= 1
            st.raised.append(method)
            out = "call-raised"
        else:
            st.pipe[x] += o.raw
            its = list(items)
            if method == "close_connection":
                its = [("goaway", 0, st.conn[x].highest_inbound_stream_id, b"done")]
                st.closed[x] = True
            if method == "update_settings":
                st.sset[x] += 1
            if method == "reset_stream":
                st.gone[x].add(args[0])
            if kw.get("end_stream") or method == "end_stream":
                st.note_es(x, args[0], "sent")
            if method == "push_stream":
                # a pushed stream starts half-closed: the promised request counts as an ended message
                st.note_es(P.S, args[1], "recv")
                st.note_es(P.C, args[1], "sent")
            if self.profile == "P10" and base[2:] in BODY_GUARD and BODY_GUARD[base[2:]][1]:
                st.body[x] = True
            st.ledger[1 - x].extend(its)
            out = "call-ok"
        if not hold:
            st.pump(bad, base)
            st.quiescent_check(bad, base)
        if viols:
            st.broken = True
        if not (st.pipe[C] or st.pipe[S]):
            st.window = False
        return Step(out + ("-held" if hold else ""), viols)


def make_spec(key):
    return Spec(key)


def run(ctx):
    import os
    only = os.environ.get("H2MC_C01_PROFILES")      # developer knob: explore some profiles only (never set by a registered command)
    for prof in sorted(PROFILES):
        if only and prof not in only.split(","):
            continue
        ctx.explore(("c01", prof, ctx.tier), time_budget=None if ctx.tier == "quick" else 150)
