"""C25 - h2c upgrade hands over settings and stream 1 consistently.

Two layers on a real client + real server pair.

 (a) Configuration enumeration: every combination of {default, one or two
     legal non-defaults, boundary} for each of the seven known settings
     (1,728 client configurations), installed as the client's local settings,
     optionally with a further unacknowledged update_settings pending.  For
     each: initiate_upgrade_connection on both sides (the client's
     HTTP2-Settings value handed to the server) and compare.
 (b) Continuation programs: explicit-state BFS from the upgraded pair (three
     representative configurations) with the C01 alphabet adapted to the
     upgraded connection (stream 1 exists), same ledger oracle and delivery
     deviations as C01.

Oracle: the server's remote_settings equal the client's local_settings key by
key, and are in force (send window of stream 1, outbound frame limit, encoder
table size, push permission); stream 1 is half-closed(local) at the client and
half-closed(remote) at the server: the server can answer it, the client
receives exactly that response, send_data / end_stream on stream 1 by the
client raise; get_next_available_stream_id is 3 and 2; then C01's oracle.
"""
import itertools

from .. import harness as H
from .. import pair as P
from .. import wire
from ..canon import fingerprint
from ..explorer import Step
from . import c01

PROPERTY = "C25"
OPTIONS = {
    1: [None, 0, 65536],                 # HEADER_TABLE_SIZE
    2: [None, 0],                        # ENABLE_PUSH
    3: [None, 0, 1, 2 ** 32 - 1],        # MAX_CONCURRENT_STREAMS (h2 default 100)
    4: [None, 0, 65534, 2 ** 31 - 1],    # INITIAL_WINDOW_SIZE (65534: its base64url form contains '-')
    5: [None, 16385, 2 ** 24 - 1],       # MAX_FRAME_SIZE
    6: [None, 0, 2 ** 32 - 1],           # MAX_HEADER_LIST_SIZE
    8: [None, 1],                        # ENABLE_CONNECT_PROTOCOL
}
ALPHABET = "client settings: product of %r (None = library default), with/without a pending update_settings; continuation alphabet U (see PROFILE_U)" % (OPTIONS,)
BOUNDS = {"quick": "(a) all 1,728 configurations x {no pending change, pending change}; (b) depth 4, <=1 deviation, 3 configurations",
          "thorough": "(b) depth 6, <=2 deviations"}
C, S = P.C, P.S
PROFILE_U = ["s:resp1", "s:resp1es", "s:info1", "s:data1", "s:data1es", "s:trailers1", "c:req3", "c:req3es", "s:resp3es", "s:push1",
             "s:resp2es", "c:rst1", "s:rst1", "c:data1", "c:end1", "c:incr1", "s:ping", "c:trailers1"]


def make_client(cfg):
    import h2.settings
    c = H.new_conn(True)
    init = {3: 100, 6: 65536}
    for k, v in cfg:
        if v is not None:
            init[k] = v
    c.local_settings = h2.settings.Settings(client=True, initial_values=init)
    # what H2Connection.__init__ derives from its local settings, kept consistent with the installed ones
    # (there is no public constructor argument for initial settings; a client "configured with" them is one
    # whose derived state matches, exactly as after __init__)
    c.max_inbound_frame_size = c.local_settings.max_frame_size
    c.decoder.max_allowed_table_size = c.local_settings.header_table_size
    c.decoder.max_header_list_size = c.local_settings.max_header_list_size
    return c


PENDING_UPDATE = {4: 12345, 1: 77}


def job_cfg(job):
    viols = {}
    outcomes = {}
    n = nt = 0
    for cfg in job["cfgs"]:
        cfg = tuple(tuple(x) for x in cfg)
        for pending in (False, True):
            n += 1
            case = {"cfg": [list(x) for x in cfg], "pending": pending}

            def bad(kind, msg, **sig):
                s = {"kind": kind, "pending": pending}
                s.update(sig)
                k = repr(sorted(s.items()))
                if k not in viols:
                    viols[k] = {"kind": kind, "sig": s, "msg": "[client settings %r, pending=%s] %s" % (dict(cfg), pending, msg), "case": case}
            try:
                c = make_client(cfg)
            except Exception as e:  # noqa: BLE001
                bad("client-config-refused", "cannot configure the client: %r" % e)
                continue
            if any(v is not None for _, v in cfg):
                nt += 1
            o1 = H.call(c, "initiate_upgrade_connection")
            if pending and o1.kind == "ok":
                # a further settings change that is still unacknowledged while the upgrade is compared.  Its
                # SETTINGS frame follows the preface on the wire (the peer really gets it): a change whose
                # frame never reaches the peer is not something the library can be held to.
                o1b = H.call(c, "update_settings", dict(PENDING_UPDATE))
                if o1b.kind != "ok":
                    bad("pending-update-refused", "update_settings after initiate_upgrade_connection -> %s" % o1b.brief())
                    continue
                o1.raw += o1b.raw
            s = H.new_conn(False)
            o2 = H.call(s, "initiate_upgrade_connection", o1.ret)
            if o1.kind != "ok" or o2.kind != "ok" or not isinstance(o1.ret, bytes):
                bad("upgrade-failed", "initiate_upgrade_connection: client %s, server %s" % (o1.brief(), o2.brief()))
                continue
            local = {int(k): v for k, v in c.local_settings.items()}
            remote = {int(k): v for k, v in s.remote_settings.items()}
            diff = {k: (local.get(k), remote.get(k)) for k in local if remote.get(k) != local[k]}
            if diff:
                bad("server-view-of-client-settings-differs", "client local_settings vs server remote_settings: %r" % diff,
                    keys=",".join(str(k) for k in sorted(diff)))
            # the named accessors the library itself enforces with say the same as the mapping, at both ends
            for who, obj in (("server remote_settings", s.remote_settings), ("client local_settings", c.local_settings)):
                for code, attr in ((1, "header_table_size"), (2, "enable_push"), (3, "max_concurrent_streams"), (4, "initial_window_size"),
                                   (5, "max_frame_size"), (6, "max_header_list_size"), (8, "enable_connect_protocol")):
                    if code in local and getattr(obj, attr) != local[code]:
                        bad("settings-accessor-differs", "%s.%s is %r, the client was configured with %r" % (who, attr, getattr(obj, attr), local[code]),
                            attr=attr)
            outcomes["configs"] = outcomes.get("configs", 0) + 1
            # in force at the server
            iws = local[4]
            try:
                w = s.local_flow_control_window(1)
            except Exception as e:  # noqa: BLE001
                w = repr(e)
            if w != min(65535, iws):
                bad("client-iws-not-in-force", "server send window on stream 1 is %r, client INITIAL_WINDOW_SIZE %d" % (w, iws))
            if s.max_outbound_frame_size != local[5]:
                bad("client-mfs-not-in-force", "server max_outbound_frame_size %d, client MAX_FRAME_SIZE %d" % (s.max_outbound_frame_size, local[5]))
            if s.encoder.header_table_size != local[1]:
                bad("client-hts-not-in-force", "server encoder table size %d, client HEADER_TABLE_SIZE %d" % (s.encoder.header_table_size, local[1]))
            # ids
            for conn, want, who in ((c, 3, "client"), (s, 2, "server")):
                r = H.call(conn, "get_next_available_stream_id")
                if r.kind != "ok" or r.ret != want:
                    bad("next-stream-id-after-upgrade", "%s get_next_available_stream_id -> %s %r, expected %d" % (who, r.brief(), r.ret, want), who=who)
            # stream 1: client cannot send a body
            import pickle
            for m, a in (("send_data", (1, b"x")), ("end_stream", (1,))):
                cc = pickle.loads(pickle.dumps(c))
                r = H.call(cc, m, *a)
                if not (r.kind == "raise" and r.is_proto and not r.raw):
                    bad("client-can-send-on-stream-1", "client %s on the upgraded stream 1 -> %s" % (m, r.brief()), call=m)
            # deliver the handshake and let the server answer stream 1
            c2s = o1.raw
            s2c = o2.raw
            r = H.recv(s, c2s)
            if r.kind != "ok":
                bad("handshake-rejected", "server rejected the client's preface+SETTINGS: %s %s" % (r.brief(), r.msg))
                continue
            s2c += r.raw
            r = H.recv(c, s2c)
            if r.kind != "ok":
                bad("handshake-rejected", "client rejected the server's SETTINGS: %s %s" % (r.brief(), r.msg))
                continue
            r2 = H.recv(s, r.raw)
            # everything is delivered and acknowledged: the client's receive window for stream 1 and the server's send window
            # for it are the same number (also after a change of INITIAL_WINDOW_SIZE that was pending during the upgrade)
            try:
                ws, wc = s.local_flow_control_window(1), c.remote_flow_control_window(1)
            except Exception as e:  # noqa: BLE001
                ws, wc = "error", repr(e)
            if ws != wc:
                bad("stream-1-windows-disagree", "after the handshake the server may send %r bytes on stream 1, the client accepts %r" % (ws, wc))
            # calls that must be refused on the upgraded connection leave it as it was ("both then continue as a normal connection")
            cc = pickle.loads(pickle.dumps(c))
            r0 = H.call(cc, "send_data", 1, b"x" * 1500)          # no request body on the upgraded stream
            r1 = H.call(cc, "send_headers", 3, H.ni(H.REQ_POST))
            if r1.kind == "ok":
                w = cc.local_flow_control_window(3)
                want_w = min(65535, {int(k): v for k, v in cc.remote_settings.items()}.get(4, 65535))
                if r0.kind != "raise" or w != want_w:
                    bad("refused-call-on-stream-1-had-an-effect", "client send_data(1, 1500 bytes) -> %s; afterwards the send window of the first "
                        "new stream is %d, expected %d" % (r0.brief(), w, want_w), call="send_data")
            if local[2] == 1:
                ss = pickle.loads(pickle.dumps(s))
                r0 = H.call(ss, "push_stream", 1, 2, [h for h in H.REQ if h[0] != b":path"])      # refused: no :path
                rid = H.call(ss, "get_next_available_stream_id")
                r1 = H.call(ss, "push_stream", 1, 2, H.REQ)
                if r0.kind != "raise" or rid.ret != 2 or r1.kind != "ok":
                    bad("refused-call-on-stream-1-had-an-effect", "server push_stream(1, 2, <list without :path>) -> %s; afterwards next id %r "
                        "(expected 2), push_stream(1, 2, <valid>) -> %s" % (r0.brief(), rid.ret, r1.brief()), call="push_stream")
            push_ok = H.call(pickle.loads(pickle.dumps(s)), "push_stream", 1, 2, H.REQ)
            if local[2] == 1 and push_ok.kind != "ok":
                bad("push-refused-although-enabled", "server push_stream(1,2) -> %s" % push_ok.brief())
            if local[2] == 0 and push_ok.kind == "ok":
                bad("push-accepted-although-disabled", "client ENABLE_PUSH=0 but server push_stream(1,2) succeeded")
            ans = H.call(s, "send_headers", 1, H.RESP + [(b"x-up", b"1")], end_stream=True)
            if ans.kind != "ok":
                bad("server-cannot-answer-stream-1", "send_headers(1, response) -> %s %s" % (ans.brief(), ans.msg))
                continue
            r = H.recv(c, ans.raw)
            evs = [e for e in r.events if type(e).__name__ == "ResponseReceived"]
            resp_size = sum(len(a) + len(b) + 32 for a, b in H.RESP + [(b"x-up", b"1")])     # RFC 7540 6.5.2
            received = (r.kind == "ok" and len(evs) == 1 and evs[0].stream_id == 1 and evs[0].stream_ended is not None
                        and [(bytes(a), bytes(b)) for a, b in evs[0].headers] == H.RESP + [(b"x-up", b"1")])
            if local[6] < resp_size and r.kind == "raise" and r.is_proto and int(r.code) == 11:
                # the client itself declared that it accepts no header list of this size (a sender is not obliged
                # to honour the advisory limit): refusing the response with ENHANCE_YOUR_CALM is the client's right
                outcomes["response-over-clients-own-limit-refused"] = outcomes.get("response-over-clients-own-limit-refused", 0) + 1
            elif not received:
                detail = (r.msg or "").replace("Error decoding header block: ", "")[:60]
                bad("client-did-not-receive-response-on-stream-1", "client got %s %s %s" % (r.brief(), r.msg or "", [H.event_brief(e) for e in r.events]),
                    got=r.exc_name or "ok", detail=detail, hts=dict(cfg).get(1))
            else:
                outcomes["response-received"] = outcomes.get("response-received", 0) + 1
    return {"evaluations": n, "outcomes": outcomes, "nontrivial": nt, "violations": list(viols.values()),
            "samples": [{"layer": "configurations", "client_settings": dict(tuple(x) for x in job["cfgs"][0])}] if job["cfgs"] else []}


REPRESENTATIVE = [(), ((4, 0), (2, 0)), ((1, 0), (5, 2 ** 24 - 1), (3, 1))]


class Spec(c01.Spec):
    def __init__(self, key):
        _, idx, tier = key
        self.profile = "U%d" % idx
        self.idx = idx
        self.tier = tier
        self.name = "c25-continuation-cfg%d-%s" % (idx, tier)
        self.max_depth = (5 if idx == 0 else 4) if tier == "quick" else 6
        self.dev = 1 if tier == "quick" else 2
        self.T = c01.calls()
        self.menu = PROFILE_U

    def initial(self):
        cfg = REPRESENTATIVE[self.idx]
        st = P.PairState.__new__(P.PairState)
        st.conn = [make_client(cfg), H.new_conn(False)]
        st.pipe = [bytearray(), bytearray()]
        st.ledger = [[], []]
        st.gone = [set(), set()]
        st.closed = [False, False]
        st.broken = False
        st.raised = []
        st.es = [{1: {"sent"}}, {1: {"recv"}}]
        st.sset, st.acks, st.overlap = [1, 1], [0, 0], [False, False]
        st.window = True
        hdr = st.conn[C].initiate_upgrade_connection()
        st.pipe[C] += st.conn[C].data_to_send()
        st.conn[S].initiate_upgrade_connection(hdr)
        st.pipe[S] += st.conn[S].data_to_send()
        for x in (C, S):
            vals = tuple(sorted((int(k), v) for k, v in st.conn[x].local_settings.items()))
            st.ledger[1 - x].append(("settings", vals))
        st.budget = self.dev
        out = [("upgraded-handshake-in-flight", st)]
        import pickle
        st2 = pickle.loads(pickle.dumps(st))
        errs = st2.pump(lambda *a, **k: None)
        if not errs:
            st2.window = False
            out.append(("upgraded", st2))
        return out


def dispatch(job):
    return job_cfg(job)


def make_spec(key):
    return Spec(key)


def replay(rec):
    case = rec.get("case")
    if not case:
        return None
    return job_cfg({"cfgs": [case["cfg"]]})["violations"]


def run(ctx):
    keys = sorted(OPTIONS)
    cfgs = [tuple(zip(keys, vals)) for vals in itertools.product(*[OPTIONS[k] for k in keys])]
    jobs = [{"cfgs": [list(map(list, c)) for c in cfgs[i::32]]} for i in range(32)]
    ctx.fanout("c25-configurations", jobs, "dispatch", domain="%d client settings configurations x 2" % len(cfgs))
    ctx.fanouts[-1]["states"] = len(cfgs)
    for idx in range(len(REPRESENTATIVE)):
        ctx.explore(("c25", idx, ctx.tier), time_budget=None if ctx.tier == "quick" else 300)
