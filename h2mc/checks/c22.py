"""C22 - server push rules are enforced on both ends.

Explicit-state BFS of the shared stream-lifecycle system (one real connection
per role), extended with: push_stream with every parent (focus stream,
auxiliary stream, a pushed stream, an unused id), promised ids {2, 4, 6, 3, 0,
an already used one}, valid / invalid request lists, with the client's
ENABLE_PUSH received as 0 / 1 at any point (server role); received
PUSH_PROMISE with parents in every state, the same promised ids, valid /
invalid lists, with local ENABLE_PUSH 1 / 0 acknowledged or still pending
(client role); then, on the promised stream: response, DATA, request-like
HEADERS, further PUSH_PROMISE, local send_headers / send_data.

Oracle (the statement of C22): push_stream succeeds iff server, the peer
allows push, the parent is client-initiated and open or half-closed(remote),
the list is a valid request, the promised id is even and above all earlier
ones - and then emits PUSH_PROMISE with exactly those fields; a client with
(acknowledged) push disabled answers PUSH_PROMISE with a connection error;
otherwise PushedStreamReceived carries the right parent id, promised id and
the validated headers; the promised stream carries only a response; pushes on
pushed streams are refused on both ends.
"""
import hpack

from .. import harness as H
from .. import lifecycle as L
from ..canon import fingerprint
from .. import wire
from ..models import streams as SM

PROPERTY = "C22"
ALPHABET = "lifecycle menu (reduced) + push_stream / PUSH_PROMISE x parents {1,3,2,7} x promised {2,4,6,3,0} x {valid, invalid list}; ENABLE_PUSH 0/1 (received / update_settings + ACK)"
BOUNDS = {"quick": "depth 6 per role", "thorough": "depth 8 per role (or time budget, reported)"}
sb = H.stateless_block
BAD_REQ = [h for h in H.REQ if h[0] != b":scheme"]
# malformed in one respect only: a pseudo-header after a regular field - and that field is a cookie
BAD_REQ2 = [h for h in H.REQ if h[0] != b":path"] + [(b"cookie", b"a=b"), (b":path", b"/")]
PROMISED = [2, 4, 6, 3, 0]


class Spec(L.Spec):
    go_on_after_refusal = True       # a refused push_stream is a no-op: what follows it is judged as if it had not been made

    def __init__(self, key):
        role, tier = key[1], key[2]
        self.cfgname = key[3] if len(key) > 3 else "default"
        self.cfg = {"default": {}, "nonorm": {"normalize_outbound_headers": False}}[self.cfgname]
        client = role == "client"
        super().__init__(client, (6 if tier == "quick" else 8) - (1 if self.cfg else 0))
        self.name = "c22-%s%s-%s" % (role, "" if not self.cfg else "-" + self.cfgname, tier)
        f, aux = self.sids
        keep = []
        for lab in self.menu:
            parts = lab.split(":")
            if len(parts) >= 2 and parts[1] in ("wu", "cont", "push"):
                continue
            if len(parts) >= 4 and parts[1] == "hdr" and parts[3] in ("trailers", "info"):
                continue
            keep.append(lab)
        extra = []
        d = "rx" if client else "l"
        for parent in (f, aux, 2, 7):
            for p in PROMISED:
                extra.append("%s:push:%d:%d" % (d, parent, p))
            extra.append("%s:push:%d:4:bad" % (d, parent))
        extra.append("%s:push:%d:4:bad2" % (d, f))
        if client:
            # l:ep:9 = update_settings({ENABLE_PUSH: 0, MAX_FRAME_SIZE: 1}), refused as a whole; l:ep:8 = an unrelated, valid
            # update_settings (INITIAL_WINDOW_SIZE) whose acknowledgement changes nothing about push
            extra += ["l:ep:0", "l:ep:1", "l:ep:9", "l:ep:8", "rxack", "rx:push:2:4", "rx:hdr:2:request", "rx:hdr:4:response:es", "l:hdr:2:request",
                      "l:data:2"]
        else:
            # rx:ep:7 = the client lowers its MAX_CONCURRENT_STREAMS to 1: promises are not counted against it (RFC 7540 5.1.2:
            # reserved streams do not count), only pushed responses that have started
            extra += ["rx:ep:0", "rx:ep:1", "rx:ep:7", "l:push:2:4", "l:pushrace:%d:2" % f, "l:pushrace:%d:4" % f]
        self.menu = keep + sorted(set(extra))

    def initial(self):
        st = L.LState(self.client, self.upgraded, **self.cfg)
        self.init_extra(st)
        return [("handshaken", st)]

    def init_extra(self, st):
        st.extra = {"rep": 1, "lep": 1, "pend": ()}
        # the server's compressor for the promises it sends (client role): ONE encoder with incremental indexing, so that a
        # promise refers to table entries inserted by earlier ones - also by promises the client refused
        st.penc = hpack.Encoder()
        # acknowledge the initial SETTINGS so that later ACKs match update_settings one to one
        st.h.rx([wire.settings([], ack=True)])

    def fingerprint(self, st):
        return fingerprint(super().fingerprint(st), st.penc)

    def execute(self, st, lab):
        parts = lab.split(":")
        h = st.h
        m = h.m
        if lab == "rxack":
            info = {"dir": "rx", "kind": "ack", "es": False}
            o = h.rx([wire.settings([], ack=True)])
            if st.extra["pend"]:
                if st.extra["pend"][0] is not None:
                    st.extra["lep"] = st.extra["pend"][0]
                st.extra["pend"] = st.extra["pend"][1:]
            return o, info
        if len(parts) >= 2 and parts[1] == "ep":
            v = int(parts[2])
            info = {"dir": parts[0], "kind": "ep", "es": False}
            if parts[0] == "l" and v == 9:
                o = h.api("update_settings", {wire.S_ENABLE_PUSH: 0, wire.S_MAX_FRAME_SIZE: 1})
                info["kind"] = "epbad"
            elif parts[0] == "l" and v == 8:
                o = h.api("update_settings", {wire.S_INITIAL_WINDOW_SIZE: 70000})
                if o.kind == "ok":
                    st.extra["pend"] = st.extra["pend"] + (None,)
            elif parts[0] == "l":
                o = h.api("update_settings", {wire.S_ENABLE_PUSH: v})
                if o.kind == "ok":
                    st.extra["pend"] = st.extra["pend"] + (v,)
            elif v == 7:
                o = h.rx([wire.settings([(wire.S_MAX_CONCURRENT_STREAMS, 1)])])
            else:
                o = h.rx([wire.settings([(wire.S_ENABLE_PUSH, v)])])
                if o.kind == "ok":
                    st.extra["rep"] = v
            return o, info
        if len(parts) >= 2 and parts[1] == "pushrace":
            # a push that succeeds while the client's SETTINGS (ENABLE_PUSH=0) is still on its way; the application has not
            # collected the PUSH_PROMISE yet when that SETTINGS frame arrives: promise first, acknowledgement after it
            parent, promised = int(parts[2]), int(parts[3])
            info = {"dir": "l", "kind": "pushrace", "es": False, "sid": parent, "promised": promised}
            try:
                h.conn.push_stream(parent, promised, list(H.REQ))
            except Exception:  # noqa: BLE001
                o = H.Obs()
                o.kind = "raise"
                o.exc_name = "refused"
                o.is_proto = o.is_h2 = True
                o.via_fsm = True        # whatever the reason: this path ends (the plain push actions judge refusals)
                H.drain(h.conn, o)
                return o, info
            o = h.rx([wire.settings([(wire.S_ENABLE_PUSH, 0)])])
            if o.kind == "ok":
                st.extra["rep"] = 0
            return o, info
        if len(parts) >= 2 and parts[1] == "push":
            parent, promised = int(parts[2]), int(parts[3])
            badlist = parts[-1] in ("bad", "bad2")
            hdrs = BAD_REQ2 if parts[-1] == "bad2" else BAD_REQ if badlist else H.REQ
            ps = m.get(parent)
            info = {"dir": parts[0], "kind": "push", "es": False, "sid": parent, "promised": promised, "badlist": badlist,
                    "pstate": ps.state if ps else "idle", "pstatus": m.status(parent),
                    "p_local": ps.local_init if ps else None, "p_pushed": ps.pushed if ps else None,
                    "p_closed_by": ps.closed_by if ps else None,
                    "promised_status": m.status(promised) if promised else "zero",
                    "hi_local": m.hi_local, "hi_peer": m.hi_peer}
            if parts[0] == "l":
                # indexable fields: a refused call that has been through the HPACK encoder shows at the next promise
                o = h.api("push_stream", parent, promised, list(hdrs))
            else:
                info["verdict"] = SM.recv_verdict(m, "push", parent, promised=promised)
                block = st.penc.encode([hpack.HeaderTuple(n, v) for n, v in hdrs], huffman=False) if self.client else sb(hdrs)
                o = h.rx([wire.push_promise(parent, promised, block)], ("push", parent, promised))
            return o, info
        return super().execute(st, lab)

    def actions(self, st):
        if st.dead:
            return []
        acts = []
        for lab in self.menu:
            if lab == "rxack" and not st.extra["pend"]:
                continue
            # (changes of different settings are never in flight together: the library matches ACKs per key - C11's known
            # finding - and would apply the other change one ACK early)
            if lab == "l:ep:8" and st.extra["pend"]:
                continue
            if lab in ("l:ep:0", "l:ep:1") and None in st.extra["pend"]:
                continue
            acts.append(lab)
        return acts

    def judge(self, st, lab, info, o, bad):
        if info["kind"] == "pushrace":
            if o.kind == "ok":
                kinds = [f.type for f in o.frames]
                if kinds[:1] != [wire.PUSH_PROMISE] or wire.SETTINGS not in kinds[1:]:
                    bad("promise-overtaken-by-settings-ack", "%s: the promise was queued before ENABLE_PUSH=0 arrived, output order %s" % (
                        lab, [f.name for f in o.frames]))
            return "pushrace-" + o.kind
        if info["kind"] == "epbad":
            if o.kind == "ok" or o.raw:
                bad("invalid-settings-accepted", "%s -> %s" % (lab, o.brief()))
            return "epbad-" + o.kind
        if info["kind"] != "push":
            # the promised stream "carries only a response": judged through the lifecycle verdicts
            if info.get("sid") in (2, 4) and "verdict" in info and info["dir"] == "rx":
                got = SM.classify_obs(o, info["sid"])
                may_accept = SM.OK in info["verdict"] or SM.IGNORE in info["verdict"]
                must_accept = info["verdict"] <= {SM.OK, SM.IGNORE}
                accepted = got in (SM.OK, SM.IGNORE)
                # coarse comparison (accepted vs refused): HOW a frame is refused is C06's subject
                if (accepted and not may_accept) or (not accepted and must_accept):
                    bad("promised-stream-verdict", "%s in state %s: allowed %s, got %s [%s]" % (
                        lab, info["state"], sorted(info["verdict"]), got, o.brief()), frame=":".join(lab.split(":")[1:2] + lab.split(":")[3:]),
                        state=info["state"], got=str(got))
            if info.get("sid") in (2, 4) and info["dir"] == "l" and self.client and info["kind"] in ("hdr", "data"):
                if o.kind == "ok":
                    bad("client-sent-on-pushed-stream", "%s succeeded on a pushed stream in state %s: %s" % (lab, info["state"], o.brief()),
                        state=info["state"])
            return "drive-" + o.kind
        parent, promised = info["sid"], info["promised"]
        if info["dir"] == "l":
            # ---- push_stream on this endpoint
            reasons = []
            if self.client:
                reasons.append("client")
            if st.extra["rep"] != 1:
                reasons.append("push-disabled-by-peer")
            if info["pstate"] not in ("open", "hc_remote"):
                reasons.append("parent-" + info["pstate"])
            if info["p_local"] is not False or info["p_pushed"]:
                reasons.append("parent-not-client-initiated")
            if info["badlist"]:
                reasons.append("invalid-list")
            if promised == 0 or promised % 2 == 1:
                reasons.append("promised-id-parity")
            elif promised <= info["hi_local"]:
                reasons.append("promised-id-not-above-earlier")
            if st.h.m.closed:
                reasons.append("connection-closed")
            if reasons:
                if o.kind == "ok":
                    bad("forbidden-push-accepted", "%s must be refused (%s) but emitted %s" % (lab, ", ".join(reasons), o.brief()),
                        reason=reasons[0])
                elif not o.is_proto:
                    bad("push-refusal-not-protocol-error", "%s refused with %s" % (lab, o.exc_name), exc=o.exc_name, reason=reasons[0])
                elif o.raw:
                    bad("refused-push-emitted", "%s raised %s but emitted %s" % (lab, o.exc_name, o.brief()))
                return "push-refused"
            if o.kind != "ok":
                bad("permitted-push-refused", "%s (parent %s, peer allows push, promised id fresh) refused: %s %s" % (
                    lab, info["pstate"], o.brief(), o.msg), parent_state=info["pstate"], exc=o.exc_name)
                return "push-refused-wrongly"
            f = o.frames
            hd = o.blocks[0][1] if o.blocks else None
            good = (len(f) == 1 and f[0].type == wire.PUSH_PROMISE and f[0].sid == parent and f[0].f["promised"] == promised
                    and hd is not None and [(n, v) for n, v, _ in hd] == H.REQ)
            if not good:
                bad("push-promise-frame-wrong", "%s emitted %s with headers %r" % (lab, o.brief(), hd))
            return "push-ok"
        # ---- PUSH_PROMISE received
        got = SM.classify_obs(o, parent, promised)
        if not self.client:
            if got != ("CE", 1):
                bad("server-accepted-push-promise", "%s on a server -> %s" % (lab, o.brief()))
            return "rx-push-server"
        if st.extra["lep"] == 0:
            if got != ("CE", 1):
                bad("push-accepted-although-disabled", "%s with local ENABLE_PUSH=0 acknowledged -> %s" % (lab, o.brief()), got=str(got))
            return "rx-push-disabled"
        verdict = info["verdict"]
        id_bad = promised == 0 or promised % 2 == 1 or info["promised_status"] != "unused_high"
        if verdict == {SM.OK} and not id_bad and not info["badlist"]:
            evs = [e for e in o.events if type(e).__name__ == "PushedStreamReceived"]
            if o.kind != "ok" or len(evs) != 1:
                bad("valid-push-promise-rejected", "%s (parent %s, ENABLE_PUSH=1 in force%s) -> %s %s" % (
                    lab, info["pstate"], ", ENABLE_PUSH=0 sent but not acknowledged" if st.extra["pend"] else "", o.brief(), o.msg or ""),
                    parent_state=info["pstate"], pending=bool(st.extra["pend"]))
                return "rx-push-rejected-wrongly"
            e = evs[0]
            if (e.parent_stream_id, e.pushed_stream_id, [(bytes(n), bytes(v)) for n, v in e.headers]) != (parent, promised, H.REQ):
                bad("pushed-stream-event-wrong", "%s: event parent=%r pushed=%r headers=%r" % (lab, e.parent_stream_id, e.pushed_stream_id, e.headers))
            return "rx-push-ok"
        # some rule is broken: it must not be accepted as a push
        evs = [e for e in o.events if type(e).__name__ == "PushedStreamReceived"]
        if evs:
            why = "invalid-list" if info["badlist"] else ("promised-id" if id_bad else "parent-" + info["pstate"])
            bad("forbidden-push-promise-accepted", "%s must not be accepted (%s) but produced PushedStreamReceived" % (lab, why), why=why)
            return "rx-push-accepted-wrongly"
        if id_bad:
            # re-promising a used id / a wrong-parity id is C09's subject; whatever the library answered, the
            # streams involved are no longer in a state this model describes
            st.dead = True
        elif info["p_closed_by"] == "send_rst" and got == ("refuse-promised",):
            pass            # raced our own reset of the parent (whatever kind of stream it was): refusing the promise is C20's rule
        elif info["pstate"] == "hc_remote" and got == ("refuse-promised",):
            # the known defect of C06 (the parent is silently marked closed): reported once, then the path ends here,
            # because the library and the model no longer agree on the parent's state
            if not info["badlist"]:
                bad("push-promise-verdict", "%s on a half-closed(remote) parent: allowed %s, library refused the promised stream and closed "
                    "the parent without a frame [%s]" % (lab, sorted(map(str, verdict)), o.brief()),
                    parent_state="hc_remote", closed_by="None", got=str(got), forgotten=False)
            st.dead = True
        elif not info["badlist"] and got not in verdict:
            # HOW it is turned down matters too: a promise on a parent the PEER reset (or that ended) is a connection error,
            # only a promise that raced OUR reset of the parent is merely refused
            bad("push-promise-verdict", "%s (parent %s, closed_by=%s, %s): allowed %s, library did %s [%s]" % (
                lab, info["pstate"], info["p_closed_by"], info["pstatus"], sorted(map(str, verdict)), got, o.brief()),
                parent_state=info["pstate"], closed_by=str(info["p_closed_by"]), got=str(got),
                forgotten=info["pstatus"] in ("forgotten", "maybe_forgotten"))
        return "rx-push-refused"


def make_spec(key):
    return Spec(key)


def run(ctx):
    for role in ("server", "client"):
        ctx.explore(("c22", role, ctx.tier), time_budget=None if ctx.tier == "quick" else 240)
    # outbound normalisation off (validation stays on): an invalid request list is refused all the same
    ctx.explore(("c22", "server", ctx.tier, "nonorm"), time_budget=None if ctx.tier == "quick" else 200)
