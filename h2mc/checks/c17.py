"""C17 - arbitrary peer bytes never produce a non-protocol exception.

Bounded-exhaustive input fan-out from explored base states of the real
connection (both roles, ~13 states each: fresh, preface half received, stream
open / half-closed each way / reserved / reset / forgotten, header block in
progress, closed) under all 12 header_encoding x validate x normalise
configurations:

 (1) structural: every frame with type 0..11 and 0xff, every subset of the
     type's defined flags plus all-ones and each undefined bit, lengths 0..12
     and the type's fixed length +-1, stream ids {0,1,2,3,2^31-1, 1 with the
     reserved bit}, payload filled from fixed byte patterns;
 (2) every HPACK block of length <= 2 (65,792 blocks) plus length 3 / 4 over
     16- / 8-value alphabets, delivered as HEADERS (request / response /
     trailers position), PUSH_PROMISE and HEADERS+CONTINUATION chains
     (1, 2, 63, 64, 65 and 1500 continuations, most of them empty for the long chains);
 (3) mutation: for every stream of the deterministic valid-traffic corpus,
     every byte position x {00, ff, ^01, ^80, +1, -1}, every truncation and
     every 2-chunk split.

Oracle: receive_data returns a list or raises h2.exceptions.ProtocolError (or
a subclass); the exception *type* is the verdict.
"""
import itertools
import pickle

from .. import corpus
from .. import harness as H
from .. import wire

PROPERTY = "C17"
TECHNIQUE = "bounded-exhaustive input fan-out (structural frame grammar, all short HPACK blocks, single-site mutations) from explored states of the real connection"
RULE = ("one evaluation = one byte string delivered to a clone of a base state; non-trivial = it was not plainly accepted "
        "(raised ProtocolError, or produced a stream error) - counted; distinct = by construction each (state, config, input) is enumerated once")

ENCODINGS = [None, "utf-8", "ascii"]
ALL_CFGS = [(("header_encoding", e), ("validate_inbound_headers", v), ("normalize_inbound_headers", n))
            for e in ENCODINGS for v in (True, False) for n in (True, False)]
QUICK_STRUCT_CFGS = [ALL_CFGS[0], ALL_CFGS[7]]
PATTERNS_Q = [0x00, 0xff, 0x81]
PATTERNS_T = [0x00, 0xff, 0x80, 0x40, 0x20, 0x10, 0x0f, 0x7f]
FIXED_LEN = {2: 5, 3: 4, 4: 6, 6: 8, 7: 8, 8: 4}
STRUCT_SIDS = [(0, 0), (1, 0), (2, 0), (3, 0), (2 ** 31 - 1, 0), (1, 1)]
HP3 = [0x00, 0x01, 0x02, 0x0f, 0x10, 0x1f, 0x20, 0x3f, 0x40, 0x41, 0x7f, 0x80, 0x81, 0x82, 0xbe, 0xff]
HP4 = [0x00, 0x01, 0x40, 0x41, 0x80, 0xff, 0x10, 0xc3]
ALPHABET = ("frame types 0..11,0xff; flag sets: all subsets of defined flags + 0xff + single undefined bits; lengths 0..12 + fixed+-1; "
            "stream ids %s; fill patterns quick %s / thorough %s; HPACK: all blocks len<=2, len 3 over %s, len 4 over %s; "
            "mutations {00,ff,^01,^80,+1,-1} at every byte, every truncation, every 2-split" % (
                [s for s, _ in STRUCT_SIDS], PATTERNS_Q, PATTERNS_T, HP3, HP4))
BOUNDS = {"quick": "structural frames in all states x 2 configurations (3 fill patterns); HPACK blocks in 2 positions x 10 configurations; chains and mutations x 10 configurations",
          "thorough": "structural frames in all states x 12 configurations with 8 fill patterns, plus all ordered pairs of a reduced frame menu; HPACK blocks in all positions"}


def flag_sets(t):
    d = wire.DEFINED_FLAGS.get(t, 0)
    bits = [b for b in (1, 2, 4, 8, 16, 32, 64, 128) if d & b]
    out = set()
    for r in range(len(bits) + 1):
        for c in itertools.combinations(bits, r):
            out.add(sum(c))
    out.add(0xff)
    for b in (1, 2, 4, 8, 16, 32, 64, 128):
        if not d & b:
            out.add(b)
    return sorted(out)


def lengths(t):
    ls = set(range(0, 13))
    if t in FIXED_LEN:
        ls.update([FIXED_LEN[t] - 1, FIXED_LEN[t], FIXED_LEN[t] + 1])
    return sorted(ls)


def feed(conn, chunks):
    """-> (verdict, obs) verdict: 'ok' | 'proto' | ('bad', excname, where)"""
    verdict = "ok"
    for ch in chunks:
        o = H.recv(conn, ch)
        if o.kind == "raise":
            if o.is_proto:
                return "proto", o
            return ("bad", o.exc_name, o.where), o
    return verdict, None


class Acc:
    def __init__(self):
        self.n = 0
        self.outcomes = {}
        self.viols = {}
        self.nontrivial = 0
        self.samples = []

    def add(self, client, state, cfg, chunks, verdict, family):
        self.n += 1
        if verdict == "ok":
            k = "accepted"
        elif verdict == "proto":
            k = "protocol-error"
            self.nontrivial += 1
        else:
            k = "NON-PROTOCOL:" + verdict[1]
            self.nontrivial += 1
            sig = {"kind": "non-protocol-exception", "exc": verdict[1], "where": verdict[2]}
            key = repr(sorted(sig.items()))
            if key not in self.viols:
                self.viols[key] = {
                    "kind": "non-protocol-exception", "sig": sig,
                    "msg": "receive_data raised %s in %s (role=%s state=%s cfg=%s family=%s, input %s)" % (
                        verdict[1], verdict[2], "client" if client else "server", state, dict(cfg), family,
                        [c.hex() for c in chunks][:4]),
                    "case": {"client": client, "state": state, "cfg": [list(x) for x in cfg],
                             "chunks": [c.hex() for c in chunks]}}
        self.outcomes[family + ":" + k] = self.outcomes.get(family + ":" + k, 0) + 1

    def result(self):
        return {"evaluations": self.n, "outcomes": self.outcomes, "nontrivial": self.nontrivial,
                "violations": list(self.viols.values()), "samples": self.samples}


def job_struct(job):
    client, state, cfg, t, patterns = job["client"], job["state"], tuple(map(tuple, job["cfg"])), job["type"], job["patterns"]
    acc = Acc()
    blob = corpus.state_blob(client, state, cfg)
    pre = wire.PREFACE if (state == "fresh" and not client) else (wire.PREFACE[10:] if state == "preface-half" else b"")
    for fl in flag_sets(t):
        for ln in lengths(t):
            for sid, rbit in STRUCT_SIDS:
                for pat in patterns:
                    data = pre + wire.raw(t, fl, sid, bytes([pat]) * ln, rbit).serialize()
                    conn = pickle.loads(blob)
                    v, _ = feed(conn, [data])
                    acc.add(client, state, cfg, [data], v, "struct")
    acc.samples.append({"family": "struct", "role": "client" if client else "server", "state": state,
                        "frame": "type=%d flags=0xff len=12 sid=1" % t})
    return acc.result()


def _positions(client):
    """(position name, state, builder(block)->frames)"""
    if client:
        return [
            ("response", "open", lambda b: [wire.headers(1, b)]),
            ("response-es", "open", lambda b: [wire.headers(1, b, es=True)]),
            ("trailers", "resp-headers", lambda b: [wire.headers(1, b, es=True)]),
            ("push", "open", lambda b: [wire.push_promise(1, 2, b)]),
            ("pushed-response", "reserved-remote", lambda b: [wire.headers(2, b)]),
            ("cont1", "open", lambda b: [wire.headers(1, b[:1], eh=False), wire.continuation(1, b[1:])]),
        ]
    return [
        ("request", "handshaken", lambda b: [wire.headers(1, b)]),
        ("request-es", "handshaken", lambda b: [wire.headers(1, b, es=True)]),
        ("trailers", "open", lambda b: [wire.headers(1, b, es=True)]),
        ("request-prio-pad", "handshaken", lambda b: [wire.headers(1, b, prio=(0, 1, False), pad=1)]),
        ("cont1", "handshaken", lambda b: [wire.headers(1, b[:1], eh=False), wire.continuation(1, b[1:])]),
    ]


def hpack_blocks(first_bytes, deep):
    for a in first_bytes:
        yield bytes([a])
        for b in range(256):
            yield bytes([a, b])
        if a in HP3:
            for b in HP3:
                for c in HP3:
                    yield bytes([a, b, c])
        if deep and a in HP4:
            for b in HP4:
                for c in HP4:
                    for d in HP4:
                        yield bytes([a, b, c, d])


def job_hpack(job):
    client, cfg, firsts, posnames = job["client"], tuple(map(tuple, job["cfg"])), job["firsts"], job["positions"]
    acc = Acc()
    for pname, state, build in _positions(client):
        if pname not in posnames:
            continue
        blob = corpus.state_blob(client, state, cfg)
        blocks = list(hpack_blocks(firsts, True))
        if 0 in firsts:
            blocks.append(b"")
        for blk in blocks:
            data = wire.ser(build(blk))
            conn = pickle.loads(blob)
            v, _ = feed(conn, [data])
            acc.add(client, state, cfg, [data], v, "hpack-" + pname)
    acc.samples.append({"family": "hpack", "role": "client" if client else "server", "block": "%02x 00" % firsts[0]})
    return acc.result()


NUMERIC_VALUES = [b"", b"0", b"00", b"5", b"-1", b"+5", b" 5", b"5 ", b"1_0", b"1e3", b"0x10", b"5,5", b"5\x00", b"\xb2",
                  "\u0665".encode("utf-8"), "\uff15".encode("utf-8"), b"0" * 4301, b"9" * 5000, b"0" * 5000 + b"5",
                  b"18446744073709551616"]
STATUS_VALUES = [b"", b"abc", b"99", b"1000", b"2" * 5000, "\u0662\u0660\u0660".encode("utf-8"), b"\xb200", b"\xff", b"20\x00",
                 b"+200", b" 200", b"1_0_0"]
METHOD_VALUES = [b"", b"HEAD", b"CONNECT", b"\xff", b"get", b"G" * 5000]


def value_frames(client, state):
    """Well-formed frames whose header *values* are the unusual thing: fields the library parses (content-length as an
    integer, :status to classify the block, :method for HEAD / CONNECT) with empty, signed, padded, non-ASCII-digit,
    very long (beyond the interpreter's integer-conversion limit) and non-text values, in the positions where they are read."""
    out = []
    if state == "skipped-id":
        # well-formed frames that name the stream id this connection skipped (its first stream was 3): as a parent of a
        # promise, and on its own
        base = H.RESP if client else H.REQ
        out = [[wire.headers(1, corpus.sb(base))], [wire.headers(1, corpus.sb(base), es=True)], [wire.data(1, b"x")],
               [wire.rst_stream(1, 8)], [wire.window_update(1, 5)], [wire.priority(1, 3, 5, False)], [wire.continuation(1, corpus.sb(base))]]
        if client:
            out += [[wire.push_promise(1, 2, corpus.sb(H.REQ))], [wire.push_promise(3, 2, corpus.sb(H.REQ))],
                    [wire.push_promise(1, 2, corpus.sb(H.REQ), eh=False), wire.continuation(1, b"")]]
        return out
    if client:
        if state not in ("open", "hc-local", "two-streams", "reserved-remote"):
            return out
        sid = 2 if state == "reserved-remote" else 1
        for v in NUMERIC_VALUES:
            out.append([wire.headers(sid, corpus.sb(H.RESP + [(b"content-length", v)]))])
            out.append([wire.headers(sid, corpus.sb(H.RESP + [(b"content-length", v)]), es=True)])
            out.append([wire.headers(sid, corpus.sb(H.RESP + [(b"content-length", b"1"), (b"content-length", v)]))])
        for v in STATUS_VALUES:
            out.append([wire.headers(sid, corpus.sb([(b":status", v)]))])
            out.append([wire.headers(sid, corpus.sb([(b":status", v), (b"content-length", b"3")]), es=True)])
        if state == "open":
            for v in NUMERIC_VALUES:
                out.append([wire.push_promise(1, 2, corpus.sb(H.REQ + [(b"content-length", v)]))])
            for v in METHOD_VALUES:
                out.append([wire.push_promise(1, 2, corpus.sb([(b":method", v)] + H.REQ[1:]))])
    else:
        if state not in ("handshaken", "open", "two-streams"):
            return out
        sid = {"handshaken": 1, "open": 3, "two-streams": 5}[state]
        for v in NUMERIC_VALUES:
            out.append([wire.headers(sid, corpus.sb(H.REQ_POST + [(b"content-length", v)]))])
            out.append([wire.headers(sid, corpus.sb(H.REQ_POST + [(b"content-length", v)]), es=True)])
            out.append([wire.headers(sid, corpus.sb(H.REQ_POST + [(b"content-length", v), (b"content-length", v)]))])
        for v in METHOD_VALUES:
            out.append([wire.headers(sid, corpus.sb([(b":method", v)] + H.REQ[1:]), es=True)])
        if state == "open":
            for v in NUMERIC_VALUES:   # in trailers the field is not read, whatever it says
                out.append([wire.headers(1, corpus.sb([(b"content-length", v)]), es=True)])
    return out


def job_fields(job):
    """Field-level grids inside otherwise well-formed frames (the byte-pattern fills of the structural family only ever
    produce a handful of field values): every SETTINGS identifier 0..40 and a few beyond x boundary values, alone and
    next to a known setting, with and without ACK; RST_STREAM / GOAWAY error codes 0..20 and extremes; WINDOW_UPDATE
    increments at the boundaries; PRIORITY weights and dependencies."""
    import struct as _st
    client, cfg = job["client"], tuple(map(tuple, job["cfg"]))
    acc = Acc()
    # every base state that is not closed: among them streams that have ended or were reset and linger in the stream table
    for state in [x for x in (corpus.CLIENT_STATES if client else corpus.SERVER_STATES)
                  if not x.startswith("closed") and x not in ("fresh", "preface-half", "mid-block")]:
        blob = corpus.state_blob(client, state, cfg)
        frames = []
        for ident in list(range(0, 41)) + [0xff, 0x100, 0x7fff, 0xffff]:
            for value in (0, 1, 2, 100, 2 ** 14, 2 ** 24 - 1, 2 ** 31 - 1, 2 ** 32 - 1):
                frames.append([wire.settings([(ident, value)])])
                frames.append([wire.settings([(4, 70000), (ident, value)])])
                frames.append([wire.settings([(ident, value), (ident, value ^ 1)])])
        # two SETTINGS frames in a row: a setting given a (valid) value by the first, then a frame that omits it, repeats it,
        # or changes another one - the handling of a frame may consult what earlier frames left behind
        VALID = {1: 0, 2: 0, 3: 5, 4: 100, 5: 20000, 6: 100000, 8: 1, 0x99: 7}
        for k, v in sorted(VALID.items()):
            first = wire.settings([(k, v)])
            frames.append([first, wire.settings([])])
            frames.append([first, wire.settings([(k, v)])])
            frames.append([first, wire.settings([(4, 70000)])])
            frames.append([first, wire.settings([], ack=True), wire.settings([(3, 9)])])
        for code in list(range(0, 21)) + [0xff, 2 ** 31, 2 ** 32 - 1]:
            frames.append([wire.rst_stream(1, code)])
            frames.append([wire.goaway(1, code, b"x")])
        for sid in (0, 1, 3):
            for inc in (0, 1, 2 ** 31 - 1 - 65535, 2 ** 31 - 65535, 2 ** 31 - 1):
                frames.append([wire.raw(wire.WINDOW_UPDATE, 0, sid, _st.pack(">I", inc))])
        # GOAWAY debug data is opaque: binary, not UTF-8, long
        for dbg in (b"\xff\xfe", b"\xc3", b"\x00" * 16000, "\u00e9".encode("utf-8")):
            frames.append([wire.goaway(1, 0, dbg)])
            frames.append([wire.goaway(0, 2, dbg)])
        for frs in frames + (value_frames(client, state)):
            data = wire.ser(frs)
            conn = pickle.loads(blob)
            v, _ = feed(conn, [data])
            acc.add(client, state, cfg, [data], v, "fields")
    acc.samples.append({"family": "fields", "role": "client" if client else "server", "example": "SETTINGS (7, 1)"})
    return acc.result()


def job_chains(job):
    """CONTINUATION chains of 1, 2, 63, 64, 65 continuations, valid and garbage blocks."""
    client, cfg = job["client"], tuple(map(tuple, job["cfg"]))
    acc = Acc()
    state = "open" if client else "handshaken"
    blob = corpus.state_blob(client, state, cfg)
    good = corpus.sb(H.RESP if client else H.REQ)
    for blk in (good, b"\x40\x00\x00", b"\xff" * 70, b"\x00" * 70, good + b"\x40\x01\xff\x01\xfe"):
        # 1500: a flood of (almost all empty) CONTINUATION frames, far beyond any limit on their number and deeper than
        # the interpreter's recursion limit if frames are consumed recursively
        for n in (1, 2, 63, 64, 65, 1500):
            pieces = [blk[i::n + 1] for i in range(n + 1)]   # interleaved garbage split
            pieces = [blk[(len(blk) * i) // (n + 1):(len(blk) * (i + 1)) // (n + 1)] for i in range(n + 1)]
            frs = [wire.headers(1, pieces[0], eh=False)] + [
                wire.continuation(1, p, eh=(i == n - 1)) for i, p in enumerate(pieces[1:])]
            for chunks in ([wire.ser(frs)], [f.serialize() for f in frs]):
                conn = pickle.loads(blob)
                v, _ = feed(conn, chunks)
                acc.add(client, state, cfg, chunks, v, "chain")
    return acc.result()


MUTS = ["00", "ff", "x01", "x80", "+1", "-1"]


def mutate(b, m):
    if m == "00":
        return 0
    if m == "ff":
        return 0xff
    if m == "x01":
        return b ^ 1
    if m == "x80":
        return b ^ 0x80
    if m == "+1":
        return (b + 1) & 0xff
    return (b - 1) & 0xff


def job_mut(job):
    client, cfg, idx = job["client"], tuple(map(tuple, job["cfg"])), job["stream"]
    acc = Acc()
    name, frames = corpus.valid_streams(client)[idx]
    data = wire.ser(frames)
    state = "open" if client else "handshaken"
    blob = corpus.state_blob(client, state, cfg)
    # sanity: the unmutated stream must be accepted
    v, o = feed(pickle.loads(blob), [data])
    if v != "ok":
        raise RuntimeError("corpus stream %s/%s not accepted: %s" % (client, name, o.brief() if o else v))
    for i in range(len(data)):
        for m in MUTS:
            nb = mutate(data[i], m)
            if nb == data[i]:
                continue
            d2 = data[:i] + bytes([nb]) + data[i + 1:]
            v, _ = feed(pickle.loads(blob), [d2])
            acc.add(client, state, cfg, [d2], v, "mutation")
        v, _ = feed(pickle.loads(blob), [data[:i]])
        acc.add(client, state, cfg, [data[:i]], v, "truncation")
        v, _ = feed(pickle.loads(blob), [data[:i], data[i:]])
        acc.add(client, state, cfg, [data[:i], data[i:]], v, "split2")
    if job.get("pairs"):
        # all pairs of mutation sites within the first 48 bytes
        lim = min(len(data), 48)
        for i in range(lim):
            for j in range(i + 1, lim):
                for m1 in ("ff", "x01"):
                    for m2 in ("00", "x80"):
                        d2 = bytearray(data)
                        d2[i] = mutate(d2[i], m1)
                        d2[j] = mutate(d2[j], m2)
                        v, _ = feed(pickle.loads(blob), [bytes(d2)])
                        acc.add(client, state, cfg, [bytes(d2)], v, "mutation2")
    acc.samples.append({"family": "mutation", "role": "client" if client else "server", "stream": name,
                        "bytes": len(data)})
    return acc.result()


def job_pairs(job):
    """All ordered pairs of a reduced structural menu (thorough)."""
    client, state, cfg = job["client"], job["state"], tuple(map(tuple, job["cfg"]))
    acc = Acc()
    blob = corpus.state_blob(client, state, cfg)
    menu = []
    for t in list(range(0, 11)) + [0xff]:
        for fl in (0, wire.DEFINED_FLAGS.get(t, 0), 0xff):
            for ln in sorted(set([0, FIXED_LEN.get(t, 1), 9])):
                for sid in (0, 1, 2):
                    menu.append(wire.raw(t, fl, sid, b"\x00" * ln).serialize())
    menu = sorted(set(menu))
    pre = wire.PREFACE if (state == "fresh" and not client) else b""
    for a in menu:
        for b in menu:
            conn = pickle.loads(blob)
            v, _ = feed(conn, [pre + a + b])
            acc.add(client, state, cfg, [pre + a + b], v, "pair")
    return acc.result()


def dispatch(job):
    return globals()["job_" + job["fam"]](job)


def replay(rec):
    case = rec["case"]
    cfg = tuple(tuple(x) for x in case["cfg"])
    conn = corpus.clone(case["client"], case["state"], cfg)
    v, o = feed(conn, [bytes.fromhex(c) for c in case["chunks"]])
    if isinstance(v, tuple):
        return [{"kind": "non-protocol-exception",
                 "sig": {"kind": "non-protocol-exception", "exc": v[1], "where": v[2]},
                 "msg": "receive_data raised %s in %s" % (v[1], v[2])}]
    return []


def make_spec(key):
    raise NotImplementedError


def run(ctx):
    quick = ctx.tier == "quick"
    jobs = []
    struct_cfgs = QUICK_STRUCT_CFGS if quick else ALL_CFGS
    patterns = PATTERNS_Q if quick else PATTERNS_T
    for client, states in ((False, corpus.SERVER_STATES), (True, corpus.CLIENT_STATES)):
        for state in states:
            for cfg in struct_cfgs:
                for t in list(range(0, 12)) + [0xff]:
                    jobs.append({"fam": "struct", "client": client, "state": state, "cfg": cfg, "type": t,
                                 "patterns": patterns})
    nstruct = len(jobs)
    for client in (False, True):
        pos = [p[0] for p in _positions(client)]
        if quick:
            pos = pos[:1] + pos[2:3]
        for cfg in (ALL_CFGS if not quick else [c for c in ALL_CFGS if c[2][1] or c[0][1]]):
            for a in range(0, 256, 8):
                jobs.append({"fam": "hpack", "client": client, "cfg": cfg, "firsts": list(range(a, a + 8)),
                             "positions": pos})
            jobs.append({"fam": "chains", "client": client, "cfg": cfg})
            jobs.append({"fam": "fields", "client": client, "cfg": cfg})
            for i in range(len(corpus.valid_streams(client))):
                jobs.append({"fam": "mut", "client": client, "cfg": cfg, "stream": i, "pairs": not quick})
    if not quick:
        for client, states in ((False, corpus.SERVER_STATES), (True, corpus.CLIENT_STATES)):
            for state in states:
                for cfg in QUICK_STRUCT_CFGS:
                    jobs.append({"fam": "pairs", "client": client, "state": state, "cfg": cfg})
    # interleave heavy/light jobs deterministically
    jobs.sort(key=lambda j: (j["fam"] != "pairs", j["fam"] != "hpack", repr(sorted(j.items()))))
    ctx.fanout("c17-%s" % ctx.tier, jobs, "dispatch",
               domain="%d jobs (%d structural) over %d+%d base states x %d configurations" % (
                   len(jobs), nstruct, len(corpus.SERVER_STATES), len(corpus.CLIENT_STATES), len(ALL_CFGS)))
    ctx.fanouts[-1]["states"] = (len(corpus.SERVER_STATES) + len(corpus.CLIENT_STATES)) * len(struct_cfgs)
