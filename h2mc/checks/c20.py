"""C20 - frames racing a local stream reset never break the connection.

Explicit-state BFS (schedules of in-flight frames).  Initial states: for each
role, a stream in each resettable state (open, half-closed either way,
response started, reserved) that the application then resets - or a parent
that is reset while it has a promised stream - with the local
MAX_CONCURRENT_STREAMS at 1 or 100.  Actions: every frame a well-behaved peer
may still have had in flight for that stream, in every order that is valid
from the peer's point of view - 1xx / response / trailers HEADERS, DATA (small,
with END_STREAM, and a burst larger than the whole connection window),
WINDOW_UPDATE, RST_STREAM, PUSH_PROMISE on it (which the library must refuse)
and then HEADERS / DATA / RST_STREAM / WINDOW_UPDATE on the refused promised
stream - interleaved at every point with the cleanup that makes the library
forget closed streams and with the opening of a further stream.  All peer
header blocks are produced by ONE stateful HPACK encoder with incremental
indexing, and each carries a fresh field, so the final probe request /
response references entries inserted by racing blocks.

Oracle: receive_data never raises; no event mentions the reset stream or a
refused promised stream (other than PriorityUpdated); racing DATA beyond the
connection window is still accepted (the window was replenished); the probe's
headers are delivered exactly (compression context in sync).
"""
import hpack

from .. import harness as H
from .. import wire
from ..canon import fingerprint
from ..explorer import Step

PROPERTY = "C20"
ALPHABET = "racing frames on the reset stream D: HEADERS info/response/trailers, DATA small/ES/burst(5x16384)/padded burst(300 x 1 byte + 255 padding), WINDOW_UPDATE, RST_STREAM, PUSH_PROMISE(D->P); on the refused P: HEADERS response, DATA, RST_STREAM, WINDOW_UPDATE; cleanup; a refused send_headers / send_data / end_stream by the application on the reset stream; resets with the default code, REFUSED_STREAM and CANCEL; a reset that falls between HEADERS / PUSH_PROMISE and its CONTINUATION; open+probe a further stream"
BOUNDS = {"quick": "depth 5 from each of the 34 initial scenarios", "thorough": "depth 7 (or time budget, reported)"}
sb = H.stateless_block


class S:
    pass


SCENARIOS_CLIENT = ["c-open", "c-hclocal", "c-resp-started", "c-reserved", "c-parent-reset",
                    # the reset falls between the HEADERS / PUSH_PROMISE frame of a block and the CONTINUATION that completes it
                    "c-midblock-resp", "c-midblock-push", "c-reserved+refused", "c-reserved+cancel",
                    # a second request stream (3) stays open next to the one that is reset: frames the peer sends on IT (a
                    # promise, its response) must not change how racing frames on the reset stream are treated
                    "c-open-with-other",
                    # the library may remember ONE closed stream only (MAX_CLOSED_STREAMS = 1), a later request (3) has come
                    # and gone before the long-lived stream 1 is reset: the stream reset last is the one to remember
                    "c-open-cap1-after-other-finished"]
SCENARIOS_SERVER = ["s-open", "s-hcremote", "s-hclocal", "s-reserved", "s-midblock-trailers",
                    # the newest stream of the peer turned away with REFUSED_STREAM / CANCEL instead of the default code
                    "s-open+refused", "s-open+cancel", "s-hcremote+refused"]
CODES = {"refused": 7, "cancel": 8}


class Cap1Connection(H.h2.connection.H2Connection):
    MAX_CLOSED_STREAMS = 1


class Spec:
    def __init__(self, key):
        _, role, tier = key
        self.client = role == "client"
        self.tier = tier
        self.name = "c20-%s-%s" % (role, tier)
        self.max_depth = 5 if tier == "quick" else 7

    # ------------------------------------------------------------------
    def penc(self, st, headers):
        return st.penc.encode([hpack.HeaderTuple(n, v) for n, v in headers], huffman=False)

    def fresh(self, st):
        st.nfresh += 1
        return (b"x-race-%d" % st.nfresh, b"v%d" % st.nfresh)

    def build(self, scen, mcs):
        st = S()
        client = self.client
        st.h = H.Solo(client)
        if scen.startswith("c-open-cap1"):
            st.h = H.Solo(True, handshake=False)
            st.h.conn = Cap1Connection(config=st.h.conn.config)
            H.handshake_client(st.h.conn)
        h = st.h
        st.penc = hpack.Encoder()
        st.nfresh = 0
        st.dead = False
        st.dead_ids = set()       # streams the application reset / the library refused: no events allowed
        st.phase = {}             # peer-side message phase per racing stream: none|final|ended
        st.can_push = set()
        st.next_even = 2
        st.next_odd = 3
        st.probed = 0
        st.misused = False        # the application has already called a sending method on the reset stream
        st.mcs = mcs
        st.midblock = None        # (sid, rest of the block, kind): only the completing CONTINUATION may come next
        st.other = None           # client role: a second request stream that stays open
        st.badpush = False
        scen, _, codename = scen.partition("+")
        rkw = {"error_code": CODES[codename]} if codename else {}
        h.rx([wire.settings([], ack=True)])
        if mcs != 100:
            h.api("update_settings", {wire.S_MAX_CONCURRENT_STREAMS: mcs})
            h.rx([wire.settings([], ack=True)])
        if client:
            es = scen == "c-hclocal"
            h.api("send_headers", 1, H.ni(H.REQ_POST), end_stream=es)
            st.phase[1] = "none"
            st.other = None
            if scen == "c-open-cap1-after-other-finished":
                for o in (h.api("send_headers", 3, H.ni(H.REQ), end_stream=True),
                          h.rx([wire.headers(3, self.penc(st, H.RESP + [self.fresh(st)]), es=True)], ("headers", 3, True, False))):
                    assert o.kind == "ok", o.brief()
                h.cleanup()
                st.next_odd = 5
                st.cap1 = True          # nothing else may close in this scenario: with room for one, the next one evicts stream 1
                st.probed = 2
                scen = "c-open"
            if scen == "c-open-with-other":
                h.api("send_headers", 3, H.ni(H.REQ_POST))
                st.other = 3
                st.next_odd = 5
                scen = "c-open"
            if scen == "c-resp-started":
                h.rx([wire.headers(1, self.penc(st, H.RESP + [self.fresh(st)]))], ("headers", 1, False, False))
                st.phase[1] = "final"
            if scen in ("c-reserved", "c-parent-reset"):
                h.rx([wire.push_promise(1, 2, self.penc(st, H.REQ + [self.fresh(st)]))], ("push", 1, 2))
                st.next_even = 4
                st.phase[2] = "none"
            if scen == "c-midblock-resp":
                blk = self.penc(st, H.RESP + [self.fresh(st), self.fresh(st)])
                h.rx([wire.headers(1, blk[:len(blk) // 2], eh=False)])
                st.midblock = (1, blk[len(blk) // 2:], "resp")
            if scen == "c-midblock-push":
                blk = self.penc(st, H.REQ + [self.fresh(st), self.fresh(st)])
                h.rx([wire.push_promise(1, 2, blk[:len(blk) // 2], eh=False)])
                st.midblock = (1, blk[len(blk) // 2:], "push")
                st.next_even = 4
            if scen == "c-reserved":
                h.api("reset_stream", 2, **rkw)
                st.dead_ids.add(2)
                st.race = [2]
            else:
                h.api("reset_stream", 1)
                st.dead_ids.add(1)
                st.race = [1]
                if not getattr(st, "cap1", False):
                    st.can_push.add(1)
                if scen == "c-parent-reset":
                    st.race.append(2)    # the earlier promise is still alive and racing frames may come on it too
        else:
            es = scen == "s-hcremote"
            h.rx([wire.headers(1, self.penc(st, H.REQ_POST + [self.fresh(st)]), es=es)], ("headers", 1, es, False))
            st.phase[1] = "ended" if es else "final"
            if scen == "s-hclocal":
                h.api("send_headers", 1, H.ni(H.RESP), end_stream=True)
            if scen == "s-midblock-trailers":
                blk = self.penc(st, H.TRAILERS + [self.fresh(st), self.fresh(st)])
                h.rx([wire.headers(1, blk[:len(blk) // 2], es=True, eh=False)])
                st.midblock = (1, blk[len(blk) // 2:], "trailers")
            if scen == "s-reserved":
                h.api("push_stream", 1, 2, H.ni(H.REQ))
                h.api("reset_stream", 2)
                st.dead_ids.add(2)
                st.race = [2]
                st.phase[2] = "ended"      # the peer sends no message on a stream promised to it
            else:
                h.api("reset_stream", 1, **rkw)
                st.dead_ids.add(1)
                st.race = [1]
        return st

    def initial(self):
        out = []
        for scen in (SCENARIOS_CLIENT if self.client else SCENARIOS_SERVER):
            for mcs in (1, 100):
                out.append(("%s/mcs%d" % (scen, mcs), self.build(scen, mcs)))
        return out

    def fingerprint(self, st):
        return fingerprint(st.h.conn, st.h.m.key(), st.penc, st.nfresh, st.dead, tuple(sorted(st.dead_ids)),
                           tuple(sorted(st.phase.items())), tuple(sorted(st.can_push)), st.next_even, st.next_odd,
                           tuple(st.race), st.probed, st.misused, st.midblock, st.other, st.badpush)

    def actions(self, st):
        if st.dead:
            return []
        acts = ["cleanup"]
        if not st.misused and st.race:
            # the application touches the stream it has reset once more: each call must be refused and change nothing
            acts += ["l:hdr:%d" % st.race[0], "l:data:%d" % st.race[0], "l:end:%d" % st.race[0]]
        if st.midblock:
            # a peer that has begun a header block can send nothing but its continuation
            return acts + ["rx:C:%d" % st.midblock[0]]
        if self.client and st.other and st.next_even < 8:
            acts.append("rx:PPo:%d" % st.other)          # accepted: the parent is open
        if not self.client and not st.badpush and any(s.state in ("open", "hc_remote") for s in st.h.m.streams.values() if not s.local_init):
            acts.append("l:badpush")                      # a push_stream the library refuses for its header list
        if st.probed < 2 and (self.client or st.h.m.count_open(False) + 1 <= st.mcs):
            acts.append("probe")
        for sid in st.race:
            ph = st.phase.get(sid, "none")
            if ph == "gone":
                continue
            acts += ["rx:W:%d" % sid, "rx:R:%d" % sid]
            if ph == "ended":
                continue
            if self.client:
                if ph == "none":
                    acts += ["rx:H:%d:response" % sid, "rx:H:%d:response:es" % sid]
                    if sid in st.dead_ids:
                        acts.append("rx:H:%d:info" % sid)
                else:
                    acts += ["rx:D:%d" % sid, "rx:D:%d:es" % sid, "rx:H:%d:trailers" % sid]
                    if sid in st.dead_ids:
                        acts.append("rx:D:%d:burst" % sid)
                        acts.append("rx:D:%d:padburst" % sid)
                if sid in st.can_push and sid % 2 == 1:
                    acts.append("rx:PP:%d" % sid)
            else:
                if ph == "final":
                    acts += ["rx:D:%d" % sid, "rx:D:%d:es" % sid, "rx:H:%d:trailers" % sid]
                    if sid in st.dead_ids:
                        acts.append("rx:D:%d:burst" % sid)
                        acts.append("rx:D:%d:padburst" % sid)
        return acts

    def apply(self, st, lab):
        viols = []
        h = st.h

        def bad(kind, msg, **sig):
            s = {"kind": kind, "role": "client" if self.client else "server"}
            s.update(sig)
            viols.append({"kind": kind, "sig": s, "msg": msg})

        if lab == "cleanup":
            h.cleanup()
            return Step("cleanup")
        if lab == "l:badpush":
            st.badpush = True
            parent = min(sid for sid, s in h.m.streams.items() if not s.local_init and s.state in ("open", "hc_remote"))
            o = h.api("push_stream", parent, (h.m.hi_local or 0) + 2, H.ni([x for x in H.REQ if x[0] != b":path"]))
            if o.kind == "ok" or o.raw:
                bad("invalid-push-accepted", "push_stream with a request list lacking :path -> %s" % o.brief())
                st.dead = True
                return Step("badpush-accepted", viols, prune=True)
            return Step("badpush-refused", viols)
        if lab.startswith("rx:PPo:"):
            parent = int(lab.split(":")[2])
            p = st.next_even
            st.next_even += 2
            o = h.rx([wire.push_promise(parent, p, self.penc(st, H.REQ + [self.fresh(st)]))], ("push", parent, p))
            if o.kind == "raise" or any(f.type == wire.RST_STREAM for f in o.frames):
                bad("valid-push-rejected", "PUSH_PROMISE(%d->%d) on an open stream -> %s" % (parent, p, o.brief()))
                st.dead = True
                return Step("ppo-rejected", viols, prune=True)
            self.check_events(st, o, bad, lab)
            return Step("ppo", viols)
        if lab.startswith("l:"):
            _, what, sid = lab.split(":")
            sid = int(sid)
            st.misused = True
            if what == "hdr":
                o = h.api("send_headers", sid, H.ni(H.REQ if self.client else H.RESP))
            elif what == "data":
                o = h.api("send_data", sid, b"late")
            else:
                o = h.api("end_stream", sid)
            if o.kind == "ok" or o.raw:
                bad("send-on-reset-stream-not-refused", "%s on a stream the application reset -> %s" % (lab, o.brief()), call=what)
                st.dead = True
                return Step("l-accepted", viols, prune=True)
            return Step("l-refused", viols)
        if lab == "probe":
            st.probed += 1
            extra = [(b"x-race-%d" % i, b"v%d" % i) for i in range(1, st.nfresh + 1)]
            if self.client:
                sid = st.next_odd
                st.next_odd += 2
                o = h.api("send_headers", sid, H.ni(H.REQ), end_stream=True)
                if o.kind != "ok":
                    # e.g. the peer's limit; not what this check is about
                    return Step("probe-not-possible", viols, prune=True)
                hdrs = H.RESP + extra + [self.fresh(st)]
                o = h.rx([wire.headers(sid, self.penc(st, hdrs), es=True)], ("headers", sid, True, False))
            else:
                sid = st.next_odd
                st.next_odd += 2
                hdrs = H.REQ + extra + [self.fresh(st)]
                o = h.rx([wire.headers(sid, self.penc(st, hdrs), es=True)], ("headers", sid, True, False))
            if o.kind == "raise":
                bad("probe-rejected", "a valid new %s referencing header-table entries inserted by racing blocks was rejected: %s %s" % (
                    "response" if self.client else "request", o.brief(), o.msg), exc=o.exc_name,
                    after_cleanup=any(s.forgotten for s in h.m.streams.values()))
                st.dead = True
                return Step("probe-rejected", viols, prune=True)
            if any(f.type == wire.RST_STREAM and f.sid == sid for f in o.frames):
                # refused for concurrency (MAX_CONCURRENT_STREAMS=1 with another stream open): legitimate
                return Step("probe-refused-stream", viols)
            evs = [e for e in o.events if type(e).__name__ in ("RequestReceived", "ResponseReceived")]
            if len(evs) != 1 or [(bytes(n), bytes(v)) for n, v in evs[0].headers] != hdrs:
                bad("probe-headers-wrong", "probe delivered %r, expected %r" % (evs[0].headers if evs else None, hdrs))
            self.check_events(st, o, bad, lab)
            return Step("probe-ok", viols)
        parts = lab.split(":")
        kind, sid = parts[1], int(parts[2])
        if kind == "H":
            blk = parts[3]
            es = parts[-1] == "es" or blk == "trailers"
            base = {"info": H.INFO, "response": H.RESP, "trailers": H.TRAILERS}[blk]
            frames = [wire.headers(sid, self.penc(st, base + [self.fresh(st)]), es=es)]
            if blk == "response":
                st.phase[sid] = "ended" if es else "final"
            elif blk == "trailers":
                st.phase[sid] = "ended"
            o = h.rx(frames)
        elif kind == "D":
            if parts[-1] in ("burst", "padburst"):
                o = None
                # burst: 5 x 16384 bytes; padburst: 300 x (1 byte + 255 of padding + length octet) = 77100 flow-controlled
                # bytes.  Either exceeds the whole connection window unless every frame is credited back in full.
                for _ in range(5 if parts[-1] == "burst" else 300):
                    o = h.rx([wire.data(sid, b"z" * 16384)] if parts[-1] == "burst" else [wire.data(sid, b"z", pad=255)])
                    if o.kind == "raise":
                        break
                    self.check_events(st, o, bad, lab)
            else:
                es = parts[-1] == "es"
                o = h.rx([wire.data(sid, b"abc", es=es)])
                if es:
                    st.phase[sid] = "ended"
        elif kind == "C":
            _, rest, what = st.midblock
            st.midblock = None
            o = h.rx([wire.continuation(sid, rest)])
            if what == "resp":
                st.phase[sid] = "final"
            elif what == "trailers":
                st.phase[sid] = "ended"
            else:
                # the promise on the parent we reset meanwhile: to be refused, and never mentioned
                refused = [f for f in o.frames if f.type == wire.RST_STREAM and f.sid == 2]
                if o.kind == "ok" and not refused:
                    bad("push-on-reset-parent-not-refused", "PUSH_PROMISE(1->2) completed after its parent was reset -> %s" % o.brief())
                st.dead_ids.add(2)
                st.race.append(2)
                st.phase[2] = "none"
        elif kind == "W":
            o = h.rx([wire.window_update(sid, 10)])
        elif kind == "R":
            o = h.rx([wire.rst_stream(sid, 8)])
            st.phase[sid] = "gone"
        elif kind == "PP":
            p = st.next_even
            st.next_even += 2
            o = h.rx([wire.push_promise(sid, p, self.penc(st, H.REQ + [self.fresh(st)]))])
            refused = [f for f in o.frames if f.type == wire.RST_STREAM and f.sid == p]
            if o.kind == "ok" and not refused:
                bad("push-on-reset-parent-not-refused", "PUSH_PROMISE(%d->%d) on a parent the application reset -> %s" % (sid, p, o.brief()))
            st.dead_ids.add(p)
            st.race.append(p)
            st.phase[p] = "none"
        else:
            raise ValueError(lab)
        if o.kind == "raise":
            bad("racing-frame-broke-connection",
                "%s (stream %d was reset locally%s): %s %s" % (lab, sid, ", already forgotten" if sid not in h.conn.streams else "", o.brief(), o.msg),
                frame=kind + (":" + parts[3] if kind == "H" else "") + (":" + parts[-1] if parts[-1] in ("burst", "padburst") else ""),
                refused_promise=(sid not in (1, 2) or (sid == 2 and False)), code=wire.err_name(int(o.code)) if o.is_proto else o.exc_name,
                forgotten=sid not in h.conn.streams)
            st.dead = True
            return Step("rx-conn-error", viols, prune=True)
        self.check_events(st, o, bad, lab)
        if viols:
            st.dead = True
        return Step("rx-" + kind, viols)

    def check_events(self, st, o, bad, lab):
        for e in o.events:
            name = type(e).__name__
            if name == "PriorityUpdated":
                continue
            sid = getattr(e, "stream_id", None)
            ids = [sid, getattr(e, "pushed_stream_id", None), getattr(e, "parent_stream_id", None)]
            hit = [i for i in ids if i in st.dead_ids]
            if hit:
                bad("event-for-reset-stream", "%s produced %s for stream %d, which was reset / refused locally" % (lab, name, hit[0]),
                    event=name)


def make_spec(key):
    return Spec(key)


def run(ctx):
    for role in ("server", "client"):
        ctx.explore(("c20", role, ctx.tier), time_budget=None if ctx.tier == "quick" else 240)
