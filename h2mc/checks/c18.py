"""C18 - every connection error emits exactly one GOAWAY with the RFC-mandated code.

Two families of inputs, each delivered to a clone of every explored base
state of the real connection (both roles):

 (a) a *catalogue* of violation templates, each tagged from RFC 7540 with the
     error code(s) it mandates (frame-size, flow-control, stream-closed,
     compression, enhance-your-calm, protocol);
 (b) the complete structural frame grammar of C17 (every type x flag set x
     length x stream id), for which the code is not classified but the
     GOAWAY shape is.

Oracle: whenever receive_data raises ProtocolError the output of that call is
exactly one frame, a GOAWAY, whose error code equals the exception's (and the
catalogue's), with last-stream-id equal to the highest stream id the peer has
opened (tracked by the harness); only an invalid client preface may omit it.
"""
import pickle

from .. import corpus
from .. import harness as H
from .. import wire
from . import c17

PROPERTY = "C18"
TECHNIQUE = "bounded-exhaustive fan-out of classified violation templates and of the structural frame grammar from explored states of the real connection"
RULE = ("one evaluation = one input delivered to a clone of a base state; non-trivial = receive_data raised ProtocolError "
        "(the GOAWAY oracle applied)")
ALPHABET = "violation catalogue (see TEMPLATES) x base states; structural grammar of C17 x base states"
BOUNDS = {"quick": "catalogue x all states x 2 configurations; structural grammar x all states (1 fill pattern)",
          "thorough": "catalogue x all states x 4 configurations, delivered whole / frame by frame / byte-split at every offset; structural grammar (3 patterns)"}

FSE, FCE, SC, CE, EYC, PE = (wire.FRAME_SIZE_ERROR, wire.FLOW_CONTROL_ERROR, wire.STREAM_CLOSED,
                             wire.COMPRESSION_ERROR, wire.ENHANCE_YOUR_CALM, wire.PROTOCOL_ERROR)

sb = corpus.sb

# per base state: (highest stream id the peer opened, a stream that accepts peer DATA or None,
#                  a stream fully closed by END_STREAM or None, next fresh peer stream id)
SERVER_INFO = {
    "fresh": (0, None, None, 1), "preface-half": (0, None, None, 1), "handshaken": (0, None, None, 1),
    "open": (1, 1, None, 3), "hc-remote": (1, None, None, 3), "hc-local": (1, 1, None, 3),
    "reset-by-us": (1, None, None, 3), "reset-by-peer": (1, None, None, 3),
    "forgotten": (3, None, 1, 5), "mid-block": (0, None, None, None),
    "reserved-local": (1, 1, None, 3), "two-streams": (3, 1, None, 5),
    "ended": (1, None, 1, 3),
    # stream 1 open; the application tried send_headers(3, ...) and push_stream(1, 3, ...): both refused for the id
    "refused-opens": (1, 1, None, 3),
    # local INITIAL_WINDOW_SIZE lowered to 10 and acknowledged; request 1 announces content-length 5 and is open
    "small-window-cl": (1, None, None, 3),
    # our MAX_FRAME_SIZE raised to 32768 (acknowledged), then lowered to 16384 (the acknowledgement is still to come)
    "mfs-lowering-pending": (1, 1, None, 3),
    # stream 1 open; a PING was queued, five bytes of it were read with data_to_send(5), then the application discarded the
    # rest with clear_outbound_data_buffer(): the GOAWAY of the next connection error must come out whole all the same
    "output-partly-read-then-cleared": (1, 1, None, 3),
    # streams 1 and 3 were opened, 1 has ended both ways and is still in the stream table; then our MAX_CONCURRENT_STREAMS was
    # lowered to 1 and acknowledged: the connection is exactly at its limit, which changes nothing about a frame on stream 1
    "ended-at-limit": (3, 3, 1, None),      # (no fresh stream: opening one is over the limit, a second violation)
    # MAX_HEADER_LIST_SIZE changed twice in a row (100, then back to 65536); the peer has acknowledged the first change only
    "mhls-100-acked-65536-pending": (0, None, None, 1),
    # stream 1 open, then the application closed the connection (GOAWAY with last-stream-id 1 is out): whatever still arrives is
    # an error on a closed connection, and a later GOAWAY never names a higher stream than the first one did (RFC 7540 6.8)
    "closed-by-us": (1, 1, None, 3),
    # the same, closed with the "shutdown notice" form close_connection(last_stream_id=2^31-1): the GOAWAY of a later error
    # names the highest stream the peer has opened, not the placeholder
    "closed-by-us-with-notice": (1, 1, None, 3),
}
CLIENT_INFO = {
    "fresh": (0, None, None, None), "handshaken": (0, None, None, None),
    "open": (0, None, None, None), "hc-local": (0, None, None, None),
    "resp-headers": (0, 1, None, None), "reserved-remote": (2, None, None, None),
    "reset-by-us": (0, None, None, None), "reset-by-peer": (0, None, None, None),
    "forgotten": (0, None, 1, None), "mid-block": (0, None, None, None),
    "two-streams": (0, 3, None, None), "ended": (0, None, 1, None),
    # requests on 1 and 3, the application reset 1, a PUSH_PROMISE (1 -> 2) that raced the reset was refused: the peer
    # has used stream id 2
    "refused-push": (2, None, None, None),
    # request 1, a stream promised on it (2) has delivered its whole response, the client has opened request 3 since:
    # stream 2 - the highest id the server has used - ended normally and is no longer in the stream table
    "pushed-ended-forgotten": (2, None, 2, None),
    # request 1 was reset BY THE SERVER, the client has opened request 3 since (stream 1 is gone from the table)
    "reset-by-peer-forgotten": (0, None, None, None),
    "output-partly-read-then-cleared": (0, 1, None, None),
    # request 1 answered with a promise (2), then the application closed the connection
    "closed-by-us": (2, 1, None, None),
}


def _build_extra(client, name, cfg):
    if name == "refused-push":
        h = H.Solo(True, **dict(cfg))
        for o in (h.api("send_headers", 1, H.ni(H.REQ)), h.api("send_headers", 3, H.ni(H.REQ)), h.api("reset_stream", 1),
                  h.rx([wire.push_promise(1, 2, sb(H.REQ))])):
            assert o.kind == "ok", o.brief()
        h.conn.data_to_send()
        return h.conn
    if name == "pushed-ended-forgotten":
        h = H.Solo(True, **dict(cfg))
        for o in (h.api("send_headers", 1, H.ni(H.REQ)), h.rx([wire.push_promise(1, 2, sb(H.REQ))]),
                  h.rx([wire.headers(2, sb(H.RESP), es=True)]), h.api("send_headers", 3, H.ni(H.REQ))):
            assert o.kind == "ok", o.brief()
        h.cleanup()
        assert 2 not in h.conn.streams
        h.conn.data_to_send()
        return h.conn
    if name == "reset-by-peer-forgotten":
        h = H.Solo(True, **dict(cfg))
        for o in (h.api("send_headers", 1, H.ni(H.REQ)), h.rx([wire.rst_stream(1, 8)]), h.api("send_headers", 3, H.ni(H.REQ))):
            assert o.kind == "ok", o.brief()
        h.cleanup()
        h.conn.data_to_send()
        return h.conn
    if name == "mfs-lowering-pending":
        h = H.Solo(False, **dict(cfg))
        for o in (h.rx([wire.settings([], ack=True)]), h.api("update_settings", {wire.S_MAX_FRAME_SIZE: 32768}),
                  h.rx([wire.settings([], ack=True)]), h.rx([wire.headers(1, sb(H.REQ_POST))]),
                  h.api("update_settings", {wire.S_MAX_FRAME_SIZE: 16384})):
            assert o.kind == "ok", o.brief()
        h.conn.data_to_send()
        return h.conn
    if name == "small-window-cl":
        h = H.Solo(False, **dict(cfg))
        for o in (h.rx([wire.settings([], ack=True)]), h.api("update_settings", {wire.S_INITIAL_WINDOW_SIZE: 10}),
                  h.rx([wire.settings([], ack=True)]), h.rx([wire.headers(1, sb(H.REQ_POST + [(b"content-length", b"5")]))])):
            assert o.kind == "ok", o.brief()
        h.conn.data_to_send()
        return h.conn
    if name == "output-partly-read-then-cleared":
        h = H.Solo(client, **dict(cfg))
        if client:
            ops = (h.api("send_headers", 1, H.ni(H.REQ_POST)), h.rx([wire.headers(1, sb(H.RESP))]))
        else:
            ops = (h.rx([wire.headers(1, sb(H.REQ_POST))]),)
        for o in ops:
            assert o.kind == "ok", o.brief()
        h.conn.data_to_send()
        h.conn.ping(b"12345678")
        assert len(h.conn.data_to_send(5)) == 5
        h.conn.clear_outbound_data_buffer()
        return h.conn
    if name in ("closed-by-us", "closed-by-us-with-notice"):
        h = H.Solo(client, **dict(cfg))
        if client:
            ops = (h.api("send_headers", 1, H.ni(H.REQ_POST)), h.rx([wire.headers(1, sb(H.RESP))]), h.rx([wire.push_promise(1, 2, sb(H.REQ))]))
        else:
            ops = (h.rx([wire.headers(1, sb(H.REQ_POST))]),)
        for o in ops:
            assert o.kind == "ok", o.brief()
        if name == "closed-by-us-with-notice":
            h.conn.close_connection(last_stream_id=2 ** 31 - 1)
        else:
            h.conn.close_connection()
        h.conn.data_to_send()
        return h.conn
    if name == "ended-at-limit":
        h = H.Solo(False, **dict(cfg))
        for o in (h.rx([wire.settings([], ack=True)]), h.rx([wire.headers(1, sb(H.REQ), es=True)]), h.rx([wire.headers(3, sb(H.REQ_POST))]),
                  h.api("send_headers", 1, H.ni(H.RESP), end_stream=True),
                  h.api("update_settings", {wire.S_MAX_CONCURRENT_STREAMS: 1}), h.rx([wire.settings([], ack=True)])):
            assert o.kind == "ok", o.brief()
        assert 1 in h.conn.streams
        h.conn.data_to_send()
        return h.conn
    if name == "mhls-100-acked-65536-pending":
        h = H.Solo(False, **dict(cfg))
        for o in (h.rx([wire.settings([], ack=True)]), h.api("update_settings", {wire.S_MAX_HEADER_LIST_SIZE: 100}),
                  h.api("update_settings", {wire.S_MAX_HEADER_LIST_SIZE: 65536}), h.rx([wire.settings([], ack=True)])):
            assert o.kind == "ok", o.brief()
        h.conn.data_to_send()
        return h.conn
    if name == "refused-opens":
        h = H.Solo(False, **dict(cfg))
        o = h.rx([wire.headers(1, sb(H.REQ_POST))])
        assert o.kind == "ok", o.brief()
        for o in (h.api("send_headers", 3, H.ni(H.RESP)), h.api("push_stream", 1, 3, H.ni(H.REQ))):
            assert o.kind == "raise", o.brief()
        h.conn.data_to_send()
        return h.conn
    if name != "ended":
        return None
    h = H.Solo(client, **dict(cfg))
    if client:
        h.api("send_headers", 1, H.ni(H.REQ), end_stream=True)
        h.rx([wire.headers(1, sb(H.RESP), es=True)])
    else:
        h.rx([wire.headers(1, sb(H.REQ), es=True)])
        h.api("send_headers", 1, H.ni(H.RESP), end_stream=True)
    h.conn.data_to_send()
    return h.conn


_BLOBS = {}


def blob_for(client, state, cfg):
    k = (client, state, cfg)
    if k not in _BLOBS:
        c = _build_extra(client, state, cfg)
        _BLOBS[k] = pickle.dumps(c) if c is not None else corpus.state_blob(client, state, cfg)
    return _BLOBS[k]


def templates(client, state):
    """-> list of (name, allowed_codes, [frames or raw bytes])"""
    info = (CLIENT_INFO if client else SERVER_INFO)[state]
    hi, data_sid, ended_sid, fresh = info
    T = []

    def add(name, codes, *items):
        T.append((name, set(codes), list(items)))

    if state == "mid-block":
        # anything but a CONTINUATION on the same stream interrupts the block
        add("interleave-ping", [PE], wire.ping())
        add("interleave-data", [PE], wire.data(1, b"x"))
        add("interleave-cont-other-stream", [PE], wire.continuation(3, b""))
        add("interleave-settings", [PE], wire.settings([]))
        # interrupting frames that are malformed themselves: two violations at once, either code - but always the same one
        # whatever the chunking (C21 replays these split at every offset)
        add("interleave-malformed-ping", [PE, FSE], wire.raw(wire.PING, 0, 0, b"\0" * 7))
        add("interleave-short-rst", [PE, FSE], wire.raw(wire.RST_STREAM, 0, 1, b"\0" * 3))
        add("interleave-oversize-data", [PE, FSE], wire.raw(wire.DATA, 0, 1, b"\0" * 16385))
        add("too-many-continuations", [PE, EYC], *[wire.continuation(1, b"", eh=False) for _ in range(65)])
        return T
    anysid = data_sid or (1 if hi or client else None)
    if state == "mfs-lowering-pending":
        # the lowered limit binds from its acknowledgement on, also for a frame that follows the ACK in the same chunk
        add("oversize-data-right-after-lowering-ack", [FSE], wire.settings([], ack=True), wire.raw(wire.DATA, 0, 1, b"\0" * 20000))
    if state == "mhls-100-acked-65536-pending":
        # the ACKNOWLEDGED limit (100) binds, not the one still in flight: a request of ordinary size is over it
        add("header-list-over-acknowledged-limit", [EYC], wire.headers(1, sb(H.REQ + [(b"x-fill", b"v" * 300)])))
        add("header-list-over-acknowledged-limit", [EYC], wire.headers(1, sb(H.REQ + [(b"x-fill", b"v" * 300)]), es=True))
        return T        # (every header block of the general catalogue is over a limit of 100 too: nothing to learn from them here)
    if state == "reserved-local":
        # a window violation through SETTINGS on a stream that is only reserved: its window was raised to 2^31-1, then the
        # peer raises INITIAL_WINDOW_SIZE
        add("iws-overflows-reserved-stream", [FCE], wire.window_update(2, 2 ** 31 - 1 - 65535), wire.settings([(4, 65536)]))
    if state == "reset-by-peer-forgotten":
        add("push-promise-on-stream-the-peer-reset", [PE], wire.push_promise(1, 2, sb(H.REQ)))
    if state == "small-window-cl":
        # A window violation is a window violation whatever else is wrong with the frame: "FLOW_CONTROL_ERROR for window
        # violations ... PROTOCOL_ERROR otherwise".  These DATA frames overrun the 10-byte stream window AND contradict
        # the announced content-length of 5 (too long / stream ended short of it / only the padding overruns).
        add("window-overrun+body-too-long", [FCE], wire.data(1, b"x" * 11))
        add("window-overrun+body-too-long+es", [FCE], wire.data(1, b"x" * 11, es=True))
        add("window-overrun-by-padding+short-body+es", [FCE], wire.data(1, b"xx", pad=9, es=True))
        add("window-overrun-consistent-body", [FCE], wire.data(1, b"x" * 5, pad=5))
    # ---- frame size
    add("oversize-unknown-frame", [FSE], wire.raw(0x42, 0, 0, b"\0" * 16385))
    add("oversize-ping", [FSE], wire.raw(wire.PING, 0, 0, b"\0" * 16385))
    if data_sid:
        add("oversize-data", [FSE], wire.raw(wire.DATA, 0, data_sid, b"\0" * 16385))
    add("priority-len4", [FSE], wire.raw(wire.PRIORITY, 0, 1, b"\0" * 4))
    add("priority-len6", [FSE], wire.raw(wire.PRIORITY, 0, 1, b"\0" * 6))
    add("rst-len3", [FSE], wire.raw(wire.RST_STREAM, 0, 1, b"\0" * 3))
    add("rst-len5", [FSE], wire.raw(wire.RST_STREAM, 0, 1, b"\0" * 5))
    add("ping-len7", [FSE], wire.raw(wire.PING, 0, 0, b"\0" * 7))
    add("ping-len9", [FSE], wire.raw(wire.PING, 0, 0, b"\0" * 9))
    add("wu-len3", [FSE], wire.raw(wire.WINDOW_UPDATE, 0, 0, b"\0\0\1"))
    add("wu-len5", [FSE], wire.raw(wire.WINDOW_UPDATE, 0, 0, b"\0\0\0\1\0"))
    add("settings-len5", [FSE], wire.raw(wire.SETTINGS, 0, 0, b"\0" * 5))
    add("settings-len7", [FSE], wire.raw(wire.SETTINGS, 0, 0, b"\0\3\0\0\0\1\0"))
    add("settings-ack-payload", [FSE], wire.raw(wire.SETTINGS, 1, 0, b"\0\3\0\0\0\1"))
    add("goaway-len7", [FSE], wire.raw(wire.GOAWAY, 0, 0, b"\0" * 7))
    # ---- flow control
    add("conn-window-overflow", [FCE], wire.window_update(0, 2 ** 31 - 1))
    add("iws-too-large", [FCE], wire.settings([(4, 2 ** 31)]))
    if data_sid:
        add("data-beyond-window", [FCE], *[wire.data(data_sid, b"\0" * 16384) for _ in range(4)])
        add("padded-data-beyond-window", [FCE], *([wire.data(data_sid, b"\0" * 16384) for _ in range(3)] +
                                                   [wire.data(data_sid, b"\0" * 16000, pad=255),
                                                    wire.data(data_sid, b"\0" * 128)]))
    # ---- stream closed (after END_STREAM both ways)
    if ended_sid:
        add("headers-after-end", [SC], wire.headers(ended_sid, sb(H.RESP if client else H.REQ), es=True))
        add("data-after-end", [SC], wire.data(ended_sid, b"x"))
    # ---- compression
    hs = data_sid if client else fresh
    if client and not hs and state in ("open", "hc-local"):
        hs = 1
    if hs:
        add("hpack-bad-index", [CE], wire.headers(hs, b"\xff\xff\xff\x7f"))
        add("hpack-index-zero", [CE], wire.headers(hs, b"\x80"))
        add("hpack-truncated-literal", [CE], wire.headers(hs, b"\x40\x0a" + b"abc"))
        add("hpack-bad-huffman", [CE], wire.headers(hs, b"\x40\x81\xff\x81\xff"))
        add("hpack-table-update-too-big", [CE], wire.headers(hs, b"\x3f\xe1\xff\x7f"))
        add("hpack-truncated-in-continuation", [CE], wire.headers(hs, b"\x40", eh=False), wire.continuation(hs, b"\x0a"))
        # ---- enhance your calm: decoded list above the advertised MAX_HEADER_LIST_SIZE (65536)
        base = (H.RESP if client else H.REQ)
        blk = sb(base + [(b"x-big", b"v" * 70000)])
        frs = [wire.headers(hs, blk[:16000], eh=False)]
        rest = blk[16000:]
        while len(rest) > 16000:
            frs.append(wire.continuation(hs, rest[:16000], eh=False))
            rest = rest[16000:]
        frs.append(wire.continuation(hs, rest))
        add("header-list-too-large", [EYC], *frs)
        # ---- malformed messages
        add("uppercase-header-name", [PE], wire.headers(hs, sb(base + [(b"X-Up", b"1")])))
        add("connection-header", [PE], wire.headers(hs, sb(base + [(b"connection", b"close")])))
        add("pseudo-after-regular", [PE], wire.headers(hs, sb([(b"x-a", b"1")] + base)))
        add("headers-self-dependency", [PE], wire.headers(hs, sb(base), prio=(hs, 16, False)))
        add("headers-pad-too-long", [PE], wire.raw(wire.HEADERS, wire.F_END_HEADERS | wire.F_PADDED, hs, b"\x09abc"))
    # ---- protocol errors
    add("wu-zero-conn", [PE], wire.raw(wire.WINDOW_UPDATE, 0, 0, b"\0\0\0\0"))
    add("data-on-stream0", [PE], wire.raw(wire.DATA, 0, 0, b"x"))
    add("headers-on-stream0", [PE], wire.raw(wire.HEADERS, 4, 0, b"\x82"))
    add("rst-on-stream0", [PE], wire.raw(wire.RST_STREAM, 0, 0, b"\0\0\0\0"))
    add("priority-on-stream0", [PE], wire.raw(wire.PRIORITY, 0, 0, b"\0\0\0\0\0"))
    add("settings-on-stream1", [PE], wire.raw(wire.SETTINGS, 0, 1, b""))
    add("ping-on-stream1", [PE], wire.raw(wire.PING, 0, 1, b"\0" * 8))
    add("goaway-on-stream1", [PE], wire.raw(wire.GOAWAY, 0, 1, b"\0" * 8))
    # a naked CONTINUATION on a stream already closed by END_STREAM violates 6.10
    # (PROTOCOL_ERROR) and 5.1 (STREAM_CLOSED) at once: either code is mandated
    add("continuation-naked", [PE, SC] if ended_sid == (anysid or 1) else [PE], wire.continuation(anysid or 1, b"\x82"))
    add("priority-self-dependency", [PE], wire.priority(5, 5, 16, False))
    add("enable-push-2", [PE], wire.settings([(2, 2)]))
    add("max-frame-size-small", [PE], wire.settings([(5, 16383)]))
    add("max-frame-size-big", [PE], wire.settings([(5, 2 ** 24)]))
    add("data-on-idle", [PE], wire.data(101 if not client else 102, b"x"))
    if data_sid:
        add("data-pad-too-long", [PE], wire.raw(wire.DATA, wire.F_PADDED, data_sid, b"\x05abc"))
    if not client:
        add("push-promise-to-server", [PE], wire.push_promise(anysid or 1, 2, sb(H.REQ)))
        add("headers-even-id", [PE], wire.headers(100, sb(H.REQ)))
        if fresh:
            add("headers-low-unused-id", [PE], wire.headers(fresh + 4, sb(H.REQ), es=True),
                wire.headers(fresh + 2, sb(H.REQ)))
    else:
        add("headers-on-idle-odd", [PE], wire.headers(101, sb(H.RESP)))
        add("headers-on-unpromised-even", [PE], wire.headers(100, sb(H.RESP)))
        if state in ("open", "hc-local", "resp-headers"):
            add("push-promise-odd-promised", [PE], wire.push_promise(1, 3, sb(H.REQ)))
    if not client and state == "fresh":
        add("bad-preface", [PE], b"GET / HTTP/1.1\r\n\r\n" + b"\0" * 10)
    return T


def deliver(blob, client, state, items, mode):
    """mode: 'whole' | 'frames' | ('split', k).  -> (last obs, all output frames of the raising call)"""
    conn = pickle.loads(blob)
    pre = b""
    if not client and state == "fresh":
        pre = wire.PREFACE
    elif state == "preface-half":
        pre = wire.PREFACE[10:]
    chunks = []
    if items and isinstance(items[0], bytes):
        chunks = [items[0]]
        pre = b""
    else:
        if mode == "whole":
            chunks = [wire.ser(items)]
        elif mode == "frames":
            chunks = [f.serialize() for f in items]
        else:
            d = wire.ser(items)
            k = mode[1] % max(1, len(d))
            chunks = [d[:k], d[k:]]
    chunks[0] = pre + chunks[0]
    o = None
    for ch in chunks:
        o = H.recv(conn, ch)
        if o.kind == "raise":
            break
    return o


MUST_BE_CONNECTION_ERROR = {"oversize-data-right-after-lowering-ack", "iws-overflows-reserved-stream",
                            "push-promise-on-stream-the-peer-reset", "header-list-over-acknowledged-limit"}


def judge(o, client, state, name, codes, hi, opening_sids, viols, outcomes, family, case):
    if state.startswith("closed"):
        codes = None            # every frame is an error here, whatever it would have been on a live connection
        opening_sids = []       # and opens nothing: the last-stream-id stays what the first GOAWAY said

    def bad(kind, msg, **sig):
        s = {"kind": kind, "template": name if family == "catalogue" else "struct"}
        s.update(sig)
        k = repr(sorted(s.items()))
        if k not in viols:
            viols[k] = {"kind": kind, "sig": s, "msg": "[%s/%s/%s] %s" % ("client" if client else "server", state, name, msg),
                        "case": case}

    if o.kind != "raise":
        outcomes[family + ":not-raised"] = outcomes.get(family + ":not-raised", 0) + 1
        # (in "mfs-lowering-pending" the generic oversize templates - 16385 bytes - are still within the limit in force)
        if family == "catalogue" and codes is not None and (
                (codes == {FSE} and state != "mfs-lowering-pending") or name in MUST_BE_CONNECTION_ERROR):
            # categories for which the RFC knows no stream-error alternative: no GOAWAY at all is the wrong code too
            bad("connection-error-not-raised", "RFC mandates a %s connection error, the input was accepted: %s" % (
                "/".join(wire.err_name(c) for c in sorted(codes)), o.brief()),
                expected="/".join(wire.err_name(c) for c in sorted(codes)))
            return True
        return False
    if not o.is_proto:
        outcomes[family + ":non-protocol"] = outcomes.get(family + ":non-protocol", 0) + 1
        return False      # C17's business
    code = int(o.code)
    outcomes[family + ":raised-" + wire.err_name(code)] = outcomes.get(family + ":raised-" + wire.err_name(code), 0) + 1
    gos = [f for f in o.frames if f.type == wire.GOAWAY]
    if name == "bad-preface" and not o.frames:
        return True
    if o.wire_error:
        bad("malformed-output", o.wire_error)
    if len(gos) != 1 or len(o.frames) != 1:
        bad("goaway-count", "raised %s but output of the call is %s" % (o.exc_name, [f.brief() for f in o.frames]),
            n_goaway=len(gos), n_other=len(o.frames) - len(gos))
        return True
    g = gos[0]
    if g.f["code"] != code:
        bad("goaway-code-differs-from-exception", "exception carries %s, GOAWAY carries %s" % (
            wire.err_name(code), wire.err_name(g.f["code"])))
    if codes is not None and code not in codes:
        bad("wrong-error-code", "RFC mandates %s, got %s (%s: %s)" % (
            "/".join(wire.err_name(c) for c in sorted(codes)), wire.err_name(code), o.exc_name, o.msg),
            expected="/".join(wire.err_name(c) for c in sorted(codes)), got=wire.err_name(code))
    allowed_last = set([hi]) | set(s for s in opening_sids if s > hi)
    if g.f["last"] not in allowed_last:
        bad("goaway-last-stream-id", "last-stream-id %d, peer's highest opened stream is %d" % (g.f["last"], hi),
            state=state)
    if g.sid != 0:
        bad("goaway-on-stream", "GOAWAY on stream %d" % g.sid)
    return True


def opening_sids(client, items, state=None):
    """Stream ids the delivered frames *attempt* to open: a GOAWAY provoked by
    such a frame may or may not count that stream as opened by the peer."""
    out = []
    if state == "mid-block":
        out.append(1)
    for f in items:
        if isinstance(f, bytes):
            continue
        if f.type == wire.HEADERS and f.sid and (f.sid % 2 == 1) != client:
            out.append(f.sid)
        if f.type == wire.PUSH_PROMISE and client and len(f.payload) >= 4:
            out.append(int.from_bytes(f.payload[:4], "big") & 0x7fffffff)
    return out


def job_catalogue(job):
    client, state, cfg, modes = job["client"], job["state"], tuple(map(tuple, job["cfg"])), job["modes"]
    info = (CLIENT_INFO if client else SERVER_INFO)[state]
    blob = blob_for(client, state, cfg)
    viols, outcomes = {}, {}
    n = nt = 0
    samples = []
    for name, codes, items in templates(client, state):
        ms = list(modes)
        if "splits" in ms:
            ms.remove("splits")
            if items and not isinstance(items[0], bytes):
                tot = len(wire.ser(items))
                if tot <= 400:
                    ms += [("split", k) for k in range(1, tot)]
        for mode in ms:
            o = deliver(blob, client, state, items, mode)
            n += 1
            case = {"fam": "catalogue", "client": client, "state": state, "cfg": [list(x) for x in cfg],
                    "template": name, "mode": list(mode) if isinstance(mode, tuple) else mode}
            if judge(o, client, state, name, codes, info[0], opening_sids(client, items, state), viols, outcomes,
                     "catalogue", case):
                nt += 1
        if len(samples) < 1:
            samples.append({"family": "catalogue", "state": state, "template": name,
                            "expected": [wire.err_name(c) for c in sorted(codes)]})
    return {"evaluations": n, "outcomes": outcomes, "nontrivial": nt,
            "violations": list(viols.values()), "samples": samples}


def job_struct(job):
    client, state, cfg, t, patterns = job["client"], job["state"], tuple(map(tuple, job["cfg"])), job["type"], job["patterns"]
    info = (CLIENT_INFO if client else SERVER_INFO)[state]
    blob = blob_for(client, state, cfg)
    viols, outcomes = {}, {}
    n = nt = 0
    pre = wire.PREFACE if (state == "fresh" and not client) else (wire.PREFACE[10:] if state == "preface-half" else b"")
    for fl in c17.flag_sets(t):
        for ln in c17.lengths(t):
            for sid, rbit in c17.STRUCT_SIDS:
                for pat in patterns:
                    fr = wire.raw(t, fl, sid, bytes([pat]) * ln, rbit)
                    conn = pickle.loads(blob)
                    o = H.recv(conn, pre + fr.serialize())
                    n += 1
                    case = {"fam": "struct", "client": client, "state": state, "cfg": [list(x) for x in cfg],
                            "hex": fr.serialize().hex()}
                    if judge(o, client, state, "struct-t%d" % t, None, info[0], opening_sids(client, [fr], state),
                             viols, outcomes, "struct", case):
                        nt += 1
    return {"evaluations": n, "outcomes": outcomes, "nontrivial": nt, "violations": list(viols.values()),
            "samples": []}


def dispatch(job):
    return globals()["job_" + job["fam"]](job)


def replay(rec):
    case = rec["case"]
    client, state = case["client"], case["state"]
    cfg = tuple(tuple(x) for x in case["cfg"])
    info = (CLIENT_INFO if client else SERVER_INFO)[state]
    blob = blob_for(client, state, cfg)
    viols, outcomes = {}, {}
    if case["fam"] == "catalogue":
        for name, codes, items in templates(client, state):
            if name != case["template"]:
                continue
            mode = case["mode"]
            mode = tuple(mode) if isinstance(mode, list) else mode
            o = deliver(blob, client, state, items, mode)
            judge(o, client, state, name, codes, info[0], opening_sids(client, items, state), viols, outcomes, "catalogue", case)
    else:
        raw = bytes.fromhex(case["hex"])
        pre = wire.PREFACE if (state == "fresh" and not client) else (wire.PREFACE[10:] if state == "preface-half" else b"")
        conn = pickle.loads(blob)
        o = H.recv(conn, pre + raw)
        fr = wire.split_frames(raw)[0]
        judge(o, client, state, "struct-t%d" % fr.type, None, info[0], opening_sids(client, [fr], state), viols, outcomes, "struct", case)
    return list(viols.values())


def make_spec(key):
    raise NotImplementedError


def run(ctx):
    quick = ctx.tier == "quick"
    cfgs = [c17.ALL_CFGS[0], c17.ALL_CFGS[7]] if quick else [c17.ALL_CFGS[0], c17.ALL_CFGS[3], c17.ALL_CFGS[4], c17.ALL_CFGS[7]]
    modes = ["whole", "frames"] + ([] if quick else ["splits"])
    jobs = []
    for client, infos in ((False, SERVER_INFO), (True, CLIENT_INFO)):
        for state in infos:
            for cfg in cfgs:
                jobs.append({"fam": "catalogue", "client": client, "state": state, "cfg": cfg, "modes": modes})
            for t in list(range(0, 12)) + [0xff]:
                jobs.append({"fam": "struct", "client": client, "state": state, "cfg": c17.ALL_CFGS[0], "type": t,
                             "patterns": [0x00] if quick else [0x00, 0xff, 0x81]})
    ctx.fanout("c18-%s" % ctx.tier, jobs, "dispatch",
               domain="%d jobs over %d+%d base states" % (len(jobs), len(SERVER_INFO), len(CLIENT_INFO)))
    ctx.fanouts[-1]["states"] = (len(SERVER_INFO) + len(CLIENT_INFO)) * len(cfgs)
    ctx.notes["catalogue_templates"] = sorted(set(t[0] for c, infos in ((False, SERVER_INFO), (True, CLIENT_INFO))
                                                  for s in infos for t in templates(c, s)))
