"""C21 - results do not depend on how bytes are split.

Schedule enumeration on the real connection.  Input side: for each byte stream
of a deterministic corpus (valid traffic for both roles; every violation
template of the C18 catalogue; a targeted family in which an earlier frame -
the peer's SETTINGS ACK - changes the frame-size limit for a later one; client
preface + SETTINGS + traffic), frame-by-frame delivery to a clone of the start
state is the reference and is compared with: one call, 1-byte drip, EVERY
2-chunk split and (for short streams) EVERY 3-chunk split.  Output side: after
fixed programs, every sequence of up to three data_to_send(amount) reads with
amount in {0,1,2,9,n-1,n,n+1} followed by an unbounded read.

Oracle: identical cumulative output bytes; identical events in order when no
error occurs; otherwise the same exception type and error code, raised by the
call that delivers a byte of the same frame; reads concatenate to exactly the
single-read output.
"""
import itertools
import pickle

from .. import corpus
from .. import harness as H
from .. import wire
from . import c18

PROPERTY = "C21"
TECHNIQUE = "exhaustive enumeration of delivery schedules (all 2-chunk and short-stream 3-chunk splits, drip, one-shot) of corpus byte streams on the real connection, differential against frame-by-frame delivery"
RULE = ("one evaluation = one (stream, chunking) delivered to a clone of the start state and compared with the frame-by-frame reference; "
        "non-trivial = the chunking splits a frame or the preface, or the stream ends in an error")
ALPHABET = "streams: valid corpus (both roles), C18 catalogue templates in 6 states, settings-ack/frame-size family, preface family; chunkings: whole, drip, all 2-splits, all 3-splits (<=limit bytes)"
BOUNDS = {"quick": "3-chunk splits for streams <= 120 bytes", "thorough": "3-chunk splits for streams <= 400 bytes"}

sb = corpus.sb


def ev_canon(e):
    d = {}
    for k, v in sorted(vars(e).items()):
        if isinstance(v, H.h2.events.Event):
            d[k] = type(v).__name__
        elif k == "frame":
            d[k] = (type(v).__name__, v.stream_id, sorted(v.flags), getattr(v, "body", None))
        elif k == "changed_settings":
            d[k] = sorted((int(kk), vv.original_value, vv.new_value) for kk, vv in v.items())
        elif k == "headers" and v is not None:
            d[k] = [(bytes(a) if isinstance(a, (bytes, bytearray)) else a,
                     bytes(b) if isinstance(b, (bytes, bytearray)) else b, type(h).__name__)
                    for h in v for a, b in [h]]
        else:
            d[k] = v
    return (type(e).__name__, repr(sorted(d.items())))


def run_chunks(blob, chunks):
    """-> (events canon list, output bytes, error or None, raising chunk end offset)"""
    conn = pickle.loads(blob)
    evs = []
    out = bytearray()
    off = 0
    for ch in chunks:
        off += len(ch)
        try:
            es = conn.receive_data(ch)
        except Exception as e:  # noqa: BLE001
            out += conn.data_to_send()
            code = getattr(e, "error_code", None)
            return evs, bytes(out), (type(e).__name__, int(code) if code is not None else None), off
        evs.extend(ev_canon(x) for x in es)
    # the output is read once at the end (not drained between chunks), so that
    # "bytes not yet handed to the application" are the same in every chunking
    out += conn.data_to_send()
    return evs, bytes(out), None, off


# ---------------------------------------------------------------- streams

def _start_states():
    """name -> (client, blob)"""
    S = {}
    for client in (False, True):
        r = "c" if client else "s"
        S[r + "-valid"] = (client, pickle.dumps(corpus.prepared_for_valid(client)))
        S[r + "-fresh"] = (client, corpus.state_blob(client, "fresh"))
        # local SETTINGS raising MAX_FRAME_SIZE in flight (unacknowledged)
        h = H.Solo(client)
        if client:
            h.api("send_headers", 1, H.ni(H.REQ_POST))
            h.rx([wire.headers(1, sb(H.RESP))])
        else:
            h.rx([wire.headers(1, sb(H.REQ_POST))])
        h.api("update_settings", {5: 32768})
        S[r + "-mfs-up-pending"] = (client, pickle.dumps(h.conn))
        h.rx([wire.settings([], ack=True)])
        h.api("update_settings", {5: 16384})
        S[r + "-mfs-down-pending"] = (client, pickle.dumps(h.conn))
        h2 = H.Solo(client)
        if client:
            h2.api("send_headers", 1, H.ni(H.REQ_POST))
            h2.rx([wire.headers(1, sb(H.RESP))])
        else:
            h2.rx([wire.headers(1, sb(H.REQ_POST))])
        h2.api("update_settings", {4: 10})
        S[r + "-iws-down-pending"] = (client, pickle.dumps(h2.conn))
        if not client:
            h3 = H.Solo(False)
            h3.rx([wire.settings([], ack=True)])
            h3.api("update_settings", {3: 1})
            h3.rx([wire.settings([], ack=True)])
            S["s-mcs1"] = (False, pickle.dumps(h3.conn))
    return S


_STATES = None


def states():
    global _STATES
    if _STATES is None:
        _STATES = _start_states()
    return _STATES


def build_streams():
    """list of (stream name, start state name or ('c18', client, state), units) where units is a list of
    byte strings (frames; the preface is one unit)"""
    out = []
    for client in (False, True):
        r = "c" if client else "s"
        for name, frames in corpus.valid_streams(client):
            out.append((r + "-valid/" + name, r + "-valid", [f.serialize() for f in frames]))
        ack = wire.settings([], ack=True).serialize()
        big = wire.data(1, b"z" * 20000).serialize()
        small = wire.data(1, b"z" * 10).serialize()
        out.append((r + "-mfs-up/ack+big", r + "-mfs-up-pending", [ack, big, small]))
        out.append((r + "-mfs-up/big-before-ack", r + "-mfs-up-pending", [small, big, ack]))
        out.append((r + "-mfs-down/ack+big", r + "-mfs-down-pending", [small, ack, big]))
        out.append((r + "-mfs-down/big+ack", r + "-mfs-down-pending", [big, ack, small]))
        out.append((r + "-iws-down/ack+data", r + "-iws-down-pending",
                    [wire.data(1, b"12345").serialize(), ack, wire.data(1, b"123456").serialize()]))
        out.append((r + "-iws-down/data+ack", r + "-iws-down-pending",
                    [wire.data(1, b"12345678901").serialize(), ack, wire.data(1, b"1").serialize()]))
    # traffic behind a GOAWAY (every further frame is refused - in whichever call it arrives)
    out.append(("c-valid/goaway-then-more", "c-valid", [wire.goaway(1, 0, b"bye").serialize(), wire.headers(1, sb(H.RESP)).serialize(),
                                                        wire.data(1, b"late", es=True).serialize()]))
    out.append(("s-valid/goaway-then-more", "s-valid", [wire.goaway(0, 0).serialize(), wire.ping(b"12345678").serialize(),
                                                        wire.headers(1, sb(H.REQ), es=True).serialize()]))
    # open / close / open at the concurrency limit (1, acknowledged) within one stretch of bytes
    rq = sb(H.REQ)
    out.append(("s-mcs1/open-reset-open", "s-mcs1", [wire.headers(1, rq).serialize(), wire.rst_stream(1, 8).serialize(),
                                                     wire.headers(3, rq).serialize(), wire.rst_stream(3, 8).serialize(),
                                                     wire.headers(5, rq, es=True).serialize()]))
    # fresh server: preface + SETTINGS + traffic; and a broken preface
    out.append(("s-fresh/preface+traffic", "s-fresh",
                [wire.PREFACE, wire.settings([(3, 5)]).serialize(),
                 wire.headers(1, sb(H.REQ), es=True).serialize(), wire.ping(b"12345678").serialize()]))
    out.append(("s-fresh/bad-preface", "s-fresh", [wire.PREFACE[:20] + b"XX\r\n", wire.settings([]).serialize()]))
    out.append(("s-fresh/short-then-settings", "s-fresh", [wire.PREFACE, wire.settings([(2, 0), (4, 1)]).serialize(),
                                                           wire.settings([], ack=True).serialize()]))
    out.append(("c-fresh/settings+ack", "c-fresh", [wire.settings([(4, 70000)]).serialize(),
                                                    wire.settings([], ack=True).serialize(), wire.ping(b"abcdefgh", ack=True).serialize()]))
    # invalid streams: the C18 catalogue in a few states
    for client, sts in ((False, ["handshaken", "open", "forgotten", "mid-block"]), (True, ["open", "resp-headers", "reserved-remote"])):
        for st in sts:
            for tname, codes, items in c18.templates(client, st):
                if items and isinstance(items[0], bytes):
                    continue
                total = sum(len(f.serialize()) for f in items)
                if total > 5000:
                    continue
                out.append(("c18/%s/%s/%s" % ("c" if client else "s", st, tname), ("c18", client, st),
                            [f.serialize() for f in items]))
    return out


_STREAMS = None


def streams():
    global _STREAMS
    if _STREAMS is None:
        _STREAMS = build_streams()
    return _STREAMS


def start_blob(start):
    if isinstance(start, tuple):
        return c18.blob_for(start[1], start[2], ())
    return states()[start][1]


def compare(name, ref, got, units, chunks, viols, label):
    r_evs, r_out, r_err, _ = ref
    g_evs, g_out, g_err, g_off = got

    def bad(kind, msg, **sig):
        s = {"kind": kind, "family": name.split("/")[0]}
        s.update(sig)
        k = repr(sorted(s.items()))
        if k not in viols:
            viols[k] = {"kind": kind, "sig": s, "msg": "[%s, chunking %s] %s" % (name, label, msg),
                        "case": {"stream": name, "sizes": [len(c) for c in chunks]}}

    if (r_err is None) != (g_err is None):
        bad("error-depends-on-chunking", "frame-by-frame: %s; this chunking: %s" % (r_err, g_err),
            ref=str(r_err and r_err[0]), got=str(g_err and g_err[0]))
        return
    if r_err is not None:
        if r_err != g_err:
            bad("different-error", "frame-by-frame: %s; this chunking: %s" % (r_err, g_err),
                ref=r_err[0], got=g_err[0])
        # same frame: reference raised while delivering unit i
        ends = list(itertools.accumulate(len(u) for u in units))
        i = ref[3]
        i = ends.index(i)
        start_i = ends[i] - len(units[i])
        prev_end = g_off - len(chunks[[sum(len(c) for c in chunks[:k + 1]) for k in range(len(chunks))].index(g_off)])
        if not (g_off > start_i and prev_end < ends[i]):
            bad("error-at-different-frame", "reference fails at unit %d (bytes %d..%d), this chunking raised on the chunk ending at %d" % (
                i, start_i, ends[i], g_off))
        if r_out != g_out:
            bad("different-output-on-error", "emitted bytes differ: %d vs %d bytes" % (len(r_out), len(g_out)))
        return
    if r_evs != g_evs:
        bad("different-events", "events differ: reference %d events, got %d; first difference at %d" % (
            len(r_evs), len(g_evs), next((i for i, (a, b) in enumerate(zip(r_evs, g_evs)) if a != b), min(len(r_evs), len(g_evs)))))
    if r_out != g_out:
        bad("different-output", "emitted bytes differ: %d vs %d bytes" % (len(r_out), len(g_out)))


def job_stream(job):
    name, start, units = streams()[job["idx"]]
    blob = start_blob(start)
    data = b"".join(units)
    n = len(data)
    ref = run_chunks(blob, units)
    viols = {}
    outcomes = {}
    cnt = nt = 0
    ends = set(itertools.accumulate(len(u) for u in units))

    def go(chunks, label):
        nonlocal cnt, nt
        got = run_chunks(blob, chunks)
        compare(name, ref, got, units, chunks, viols, label)
        cnt += 1
        k = ("error" if ref[2] else "ok") + ":" + label.split("@")[0]
        outcomes[k] = outcomes.get(k, 0) + 1
        cuts = set(itertools.accumulate(len(c) for c in chunks))
        if ref[2] or (cuts - ends):
            nt += 1

    go([data], "whole")
    if n <= 3000:
        go([data[i:i + 1] for i in range(n)], "drip")
    lim2 = job["lim2"]
    step = 1 if n <= lim2 else max(1, n // lim2)
    for i in range(1, n, step):
        go([data[:i], data[i:]], "split2@%d" % i)
    if n <= job["lim3"]:
        for i in range(1, n):
            for j in range(i + 1, n):
                go([data[:i], data[i:j], data[j:]], "split3@%d,%d" % (i, j))
    return {"evaluations": cnt, "outcomes": outcomes, "nontrivial": nt, "violations": list(viols.values()),
            "samples": [{"stream": name, "bytes": n, "units": len(units), "reference": "error %s" % (ref[2],) if ref[2] else "%d events" % len(ref[0])}]}


# ---------------------------------------------------------------- output side

def out_programs():
    progs = []
    c = H.new_conn(True)
    c.initiate_connection()
    c.send_headers(1, H.REQ)
    c.send_data(1, b"hello", end_stream=True)
    c.ping(b"12345678")
    progs.append(("client-burst", pickle.dumps(c)))
    s = H.new_conn(False)
    s.initiate_connection()
    s.receive_data(wire.PREFACE + wire.settings([]).serialize() + wire.headers(1, sb(H.REQ), es=True).serialize())
    s.send_headers(1, H.RESP)
    s.send_data(1, b"x" * 300, end_stream=True)
    progs.append(("server-response", pickle.dumps(s)))
    e = H.new_conn(True)
    progs.append(("empty", pickle.dumps(e)))
    return progs


def job_output(job):
    viols = {}
    cnt = 0
    outcomes = {}
    for pname, blob in out_programs():
        whole = pickle.loads(blob).data_to_send()
        n = len(whole)
        amounts = sorted(set(a for a in (0, 1, 2, 9, n - 1, n, n + 1) if a >= 0))
        for k in range(0, 4):
            for seq in itertools.product(amounts, repeat=k):
                conn = pickle.loads(blob)
                parts = [conn.data_to_send(a) for a in seq]
                parts.append(conn.data_to_send())
                cnt += 1
                okay = b"".join(parts) == whole and all(len(p) <= a for p, a in zip(parts, seq)) and conn.data_to_send() == b""
                outcomes["reads-" + str(k)] = outcomes.get("reads-" + str(k), 0) + 1
                if not okay:
                    s = {"kind": "output-partition", "program": pname}
                    viols[repr(s)] = {"kind": "output-partition", "sig": s,
                                      "msg": "[%s] reads %r + final read do not partition the %d output bytes" % (pname, seq, n),
                                      "case": {"output": pname, "seq": list(seq)}}
        # ---- reads interleaved with events that empty the buffer: a partial read, then the buffer is discarded
        # (clear_outbound_data_buffer, or the library's own discard when the peer's GOAWAY arrives), then one new frame
        # is queued - the next reads must return exactly that frame
        for first in amounts:
            for how in ("clear", "goaway"):
                for second in (None, 1, 5):
                    conn = pickle.loads(blob)
                    got_first = conn.data_to_send(first)
                    try:
                        if how == "clear":
                            conn.clear_outbound_data_buffer()
                            conn.ping(b"AFTERCLR")
                        else:
                            conn.receive_data(wire.goaway(0, 0).serialize())
                            conn.close_connection(0, b"afterclear")
                    except Exception:  # noqa: BLE001 - whether these calls are possible here is not this check's subject
                        continue
                    cnt += 1
                    outcomes["reads-after-discard"] = outcomes.get("reads-after-discard", 0) + 1
                    parts = [conn.data_to_send(second)] if second is not None else []
                    parts.append(conn.data_to_send())
                    new_bytes = b"".join(parts)
                    try:
                        frs = wire.parse(new_bytes)
                    except wire.WireError:
                        frs = None
                    want_type = wire.PING if how == "clear" else wire.GOAWAY
                    okay = (got_first == whole[:first] and frs is not None and len(frs) == 1 and frs[0].type == want_type and
                            (second is None or len(parts[0]) <= second) and conn.data_to_send() == b"")
                    if not okay:
                        s = {"kind": "output-after-discard", "program": pname, "how": how}
                        viols[repr(s)] = {"kind": "output-after-discard", "sig": s,
                                          "msg": "[%s] read %d bytes, buffer discarded (%s), one new frame queued: reads (%r, rest) returned %r" % (
                                              pname, first, how, second, new_bytes),
                                          "case": {"output": pname, "discard": how, "first": first, "second": second}}
    return {"evaluations": cnt, "outcomes": outcomes, "nontrivial": cnt, "violations": list(viols.values()),
            "samples": [{"output_program": "client-burst", "reads": [1, 9, "n-1", "rest"]}]}


def dispatch(job):
    return globals()["job_" + job["fam"]](job)


def replay(rec):
    case = rec["case"]
    viols = {}
    if "stream" in case:
        for idx, (name, start, units) in enumerate(streams()):
            if name == case["stream"]:
                blob = start_blob(start)
                data = b"".join(units)
                ref = run_chunks(blob, units)
                chunks = []
                o = 0
                for s in case["sizes"]:
                    chunks.append(data[o:o + s])
                    o += s
                got = run_chunks(blob, chunks)
                compare(name, ref, got, units, chunks, viols, "replay")
    else:
        return job_output({})["violations"]
    return list(viols.values())


def make_spec(key):
    raise NotImplementedError


def run(ctx):
    quick = ctx.tier == "quick"
    jobs = [{"fam": "stream", "idx": i, "lim2": 1500 if quick else 25000, "lim3": 120 if quick else 400}
            for i in range(len(streams()))]
    jobs.sort(key=lambda j: -sum(len(u) for u in streams()[j["idx"]][2]) if sum(len(u) for u in streams()[j["idx"]][2]) <= (120 if quick else 400) else 0)
    jobs.append({"fam": "output"})
    ctx.fanout("c21-%s" % ctx.tier, jobs, "dispatch", domain="%d byte streams, all chunkings within the bound" % len(streams()))
    ctx.fanouts[-1]["states"] = len(states()) + 7
