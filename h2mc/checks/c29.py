"""C29 - API misuse is reported only through documented exceptions and emits nothing.

Explicit-state BFS of one real connection (each role).  "Build" actions (peer
frames and well-behaved local calls, plus the explicit cleanup that makes the
library forget closed streams) create every stream condition: never used,
open, half-closed, reset, ended, closed-and-remembered, closed-and-forgotten,
connection idle/open/closed.  In every reachable state the whole public API
is called with well-typed arguments from a boundary-oriented menu; such a
call is a *deviation*, and states reached through up to N deviations are
explored further (so a failing call's hidden side effects are exposed by the
calls that follow).

Oracle per call: outcome is success, an h2 exception, or ValueError/TypeError
at a documented range check and only when the argument really is out of
range; a call that raises leaves the output empty; calls that act on an
existing stream raise exactly StreamClosedError for a closed-and-forgotten id
and exactly NoSuchStreamError for a never-used higher id.
"""
import pickle

from .. import harness as H
from .. import wire
from ..canon import fingerprint
from ..explorer import Step

PROPERTY = "C29"
SIDS = [0, 1, 2, 3, 5, 7, 101, 2 ** 31 - 1]
ALPHABET = ("every public method; stream ids %s; send_data sizes {0,1,W,W+1,F+1} pad {None,-1,0,255,256,'1'}; "
            "increments {0,1,2^31-1,2^31}; ack sizes {-1,0,5}; header lists {valid, invalid (missing :path), "
            "wrong-role, block at frame limit -6..+1 with priority}; build actions: peer HEADERS/DATA/RST/PUSH_PROMISE/GOAWAY, "
            "local request/response/data/end/reset/push, update_settings(extension id), cleanup, close" % SIDS)
BOUNDS = {"quick": "build depth 3, <=1 misuse deviation (followed by build actions), both roles",
          "thorough": "build depth 6, <=2 misuse deviations, both roles"}
ASSUMPTIONS = [
    "well-typed, in-wire-domain arguments only (no values >= 2^32, no non-bytes payloads except the documented pad_length TypeError probe)",
    "strict stream-lookup expectations apply only while the connection is usable and the role permits the call",
]

BAD_REQ = [(b":method", b"GET"), (b":scheme", b"https"), (b":authority", b"example.com")]


def _menu(client):
    """Misuse/probe menu: list of (label, method, argspec)."""
    m = []
    req_like = "REQ" if client else "RESP"
    for sid in SIDS:
        for hl in (req_like, "BAD", "WRONGROLE"):
            for es in (False, True):
                m.append(("send_headers:%d:%s:%d" % (sid, hl, es), "send_headers", (sid, hl, es)))
        if sid in (1, 3):
            # a field whose name is empty, or is nothing but whitespace (which normalisation strips to nothing)
            m.append(("send_headers:%d:EMPTYNAME:0" % sid, "send_headers", (sid, "EMPTYNAME", False)))
            m.append(("send_headers:%d:WSNAME:1" % sid, "send_headers", (sid, "WSNAME", True)))
            # no field at all, with END_STREAM (empty trailers where trailers are due)
            m.append(("send_headers:%d:EMPTY:1" % sid, "send_headers", (sid, "EMPTY", True)))
        if not client and sid in (1, 2, 3):
            # an informational (103) block, also on a stream that is only promised so far
            m.append(("send_headers:%d:INFO:0" % sid, "send_headers", (sid, "INFO", False)))
        if sid in (1, 3):
            # valid list, priority weight outside 1..256: refused after the stream object may already exist
            m.append(("send_headers:%d:%s:w300" % (sid, req_like), "send_headers_w300", (sid, req_like)))
        for size in ("0", "1", "W", "W+1", "F+1"):
            m.append(("send_data:%d:%s" % (sid, size), "send_data", (sid, size, False, None)))
        m.append(("send_data:%d:0:es" % sid, "send_data", (sid, "0", True, None)))
        for pad in (-1, 0, 255, 256, "1"):
            m.append(("send_data:%d:1:pad%s" % (sid, pad), "send_data", (sid, "1", False, pad)))
        if sid in (1, 2):
            for pad in (0, 10):
                # payload of exactly the frame limit plus padding: one byte (eleven bytes) too many
                m.append(("send_data:%d:F:pad%s" % (sid, pad), "send_data", (sid, "F", False, pad)))
        m.append(("end_stream:%d" % sid, "end_stream", (sid,)))
        for inc in (0, 1, 2 ** 31 - 1, 2 ** 31):
            m.append(("incr:%d:%d" % (sid, inc), "increment_flow_control_window", (inc, sid)))
        for code in (0, 8):
            m.append(("reset:%d:%d" % (sid, code), "reset_stream", (sid, code)))
        for sz in (-1, 0, 5):
            m.append(("ack:%d:%d" % (sid, sz), "acknowledge_received_data", (sz, sid)))
        m.append(("lfcw:%d" % sid, "local_flow_control_window", (sid,)))
        m.append(("rfcw:%d" % sid, "remote_flow_control_window", (sid,)))
        for prom in (2, 4, 3, 0):
            m.append(("push:%d:%d" % (sid, prom), "push_stream", (sid, prom, "REQ")))
        m.append(("altsvc:s%d" % sid, "advertise_alternative_service", (b"h2=\":443\"", None, sid)))
        m.append(("prio:%d" % sid, "prioritize", (sid, 16, 0, False)))
    for inc in (0, 1, 2 ** 31 - 1, 2 ** 31):
        m.append(("incr:conn:%d" % inc, "increment_flow_control_window", (inc, None)))
    for d in (-6, -5, -4, -1, 0, 1):
        m.append(("send_headers:N:SIZED%+d:prio" % d, "send_headers_sized", (d, True)))
        m.append(("send_headers:N:SIZED%+d" % d, "send_headers_sized", (d, False)))
    for d in (1, 200):
        # on the promised stream 2 (servers): its frame-size limit has to follow the peer's SETTINGS while it is reserved
        m.append(("send_headers:P2:SIZED%+d" % d, "send_headers_sized_p", (d,)))
    m.append(("altsvc:origin", "advertise_alternative_service", (b"h2=\":443\"", b"example.com", None)))
    m.append(("altsvc:both", "advertise_alternative_service", (b"h2=\":443\"", b"example.com", 1)))
    m.append(("altsvc:strfield", "advertise_alternative_service", ("h2", b"example.com", None)))
    m.append(("prio:1:w0", "prioritize", (1, 0, 0, False)))
    m.append(("prio:1:w257", "prioritize", (1, 257, 0, False)))
    m.append(("prio:1:self", "prioritize", (1, 16, 1, False)))
    for p in (b"12345678", b"1234567", "12345678"):
        m.append(("ping:%r" % (p,), "ping", (p,)))
    m.append(("settings:ok", "update_settings", ({4: 100},)))
    m.append(("settings:bad", "update_settings", ({2: 2},)))
    m.append(("settings:mixed", "update_settings", ({3: 10, 5: 1},)))
    m.append(("settings:unknown", "update_settings", ({0x99: 1},)))
    m.append(("next_id", "get_next_available_stream_id", ()))
    m.append(("initiate", "initiate_connection", ()))
    m.append(("clear", "clear_outbound_data_buffer", ()))
    return m


STRICT_METHODS = ("send_data", "end_stream", "increment_flow_control_window",
                  "reset_stream", "local_flow_control_window",
                  "remote_flow_control_window", "acknowledge_received_data",
                  "push_stream", "advertise_alternative_service")


class S:
    def __init__(self, client, handshake):
        self.h = H.Solo(client, handshake=handshake)
        self.budget = 0
        self.dirty = False        # some local call raised earlier in this history
        self.attempted = set()    # ids handed to send_headers/push_stream (even if refused)


class Spec:
    def __init__(self, key):
        _, role, tier = key
        self.client = role == "client"
        self.tier = tier
        self.name = "c29-%s-%s" % (role, tier)
        self.dev = 1 if tier == "quick" else 2
        self.max_depth = (3 if tier == "quick" else 6) + self.dev
        self.menu = _menu(self.client)
        self.menu_by_label = {m[0]: m for m in self.menu}
        if self.client:
            self.build = ["l:req1", "l:req1e", "l:req3e", "l:data1", "l:end1", "l:rst1",
                          "rx:resp1", "rx:resp1e", "rx:D1", "rx:D1e", "rx:R1", "rx:PP1_2", "rx:resp2e",
                          "cleanup", "l:close", "rx:goaway", "l:setx", "l:badopen2", "l:badopenbig", "rx:iws0"]
        else:
            self.build = ["rx:H1", "rx:H1e", "rx:H3e", "rx:D1", "rx:D1e", "rx:R1",
                          "l:resp1", "l:resp1e", "l:data1", "l:end1", "l:rst1", "l:push1_2", "l:resp2e",
                          "cleanup", "l:close", "rx:goaway", "l:setx", "l:badpush1_3", "rx:mfs-up", "rx:mfs-down", "rx:iws0"]

    def initial(self):
        s = S(self.client, True)
        s.budget = self.dev
        s2 = S(self.client, False)
        s2.budget = self.dev
        out = [("handshaken", s), ("fresh", s2)]
        if not self.client:
            # three steps on: a request open, the peer has raised its MAX_FRAME_SIZE, a stream is promised
            s3 = S(self.client, True)
            s3.budget = self.dev
            for lab in ("rx:H1", "rx:mfs-up", "l:push1_2"):
                step = self.apply(s3, lab)
                assert not step.violations, lab
            out.append(("request+large-frames+promise", s3))
        return out

    def actions(self, st):
        acts = list(self.build)
        if st.budget > 0:
            acts += [m[0] for m in self.menu]
        return acts

    def fingerprint(self, st):
        return fingerprint(st.h.conn, st.h.m.key(), st.budget, st.h.need_preface,
                           st.h.wdec_broken, st.dirty, tuple(sorted(st.attempted)))

    # ------------------------------------------------------------------
    def _hdrs(self, kind):
        if kind == "REQ":
            return H.ni(H.REQ)
        if kind == "RESP":
            return H.ni(H.RESP)
        if kind == "BAD":
            return H.ni(BAD_REQ) if self.client else H.ni([(b"content-type", b"x")])
        if kind == "EMPTY":
            return []
        if kind == "EMPTYNAME":
            return H.ni((H.REQ if self.client else H.RESP) + [(b"", b"v")])
        if kind == "WSNAME":
            return [(n.decode(), v.decode()) for n, v in (H.REQ if self.client else H.RESP)] + [(u"\t", u"")]
        if kind == "INFO":
            return H.ni([(b":status", b"103"), (b"link", b"</s.css>")])
        if kind == "WRONGROLE":
            return H.ni(H.RESP) if self.client else H.ni(H.REQ)
        raise ValueError(kind)

    def _build(self, st, lab):
        h = st.h
        sb = H.stateless_block
        if lab == "cleanup":
            h.cleanup()
            return None
        if lab == "l:close":
            return h.api("close_connection")
        if lab == "rx:goaway":
            return h.rx([wire.goaway(0, 0)], ("goaway",))
        if lab.startswith("l:"):
            a = lab[2:]
            if a in ("req1", "req1e", "req3e"):
                sid = int(a[3])
                return h.api("send_headers", sid, H.ni(H.REQ), end_stream=a.endswith("e"))
            if a in ("resp1", "resp1e", "resp2e"):
                sid = int(a[4])
                return h.api("send_headers", sid, H.ni(H.RESP), end_stream=a.endswith("e"))
            if a == "data1":
                return h.api("send_data", 1, b"x")
            if a == "end1":
                return h.api("end_stream", 1)
            if a == "rst1":
                return h.api("reset_stream", 1)
            if a == "push1_2":
                return h.api("push_stream", 1, 2, H.ni(H.REQ))
            if a == "badopen2":
                # opens that must be refused for their id alone (wrong parity, above 2^31-1): the id stays unused
                return h.api("send_headers", 2, H.ni(H.REQ))
            if a == "badopenbig":
                return h.api("send_headers", 2 ** 31 + 1, H.ni(H.REQ))
            if a == "badpush1_3":
                return h.api("push_stream", 1, 3, H.ni(H.REQ))
            if a == "setx":
                # a well-behaved call: an extension setting the connection holds no value for stays pending
                return h.api("update_settings", {0x99: 1})
        if lab.startswith("rx:"):
            a = lab[3:]
            if a in ("H1", "H1e", "H3e"):
                sid = int(a[1])
                es = a.endswith("e")
                return h.rx([wire.headers(sid, sb(H.REQ), es=es)], ("headers", sid, es, False))
            if a in ("resp1", "resp1e", "resp2e"):
                sid = int(a[4])
                es = a.endswith("e")
                return h.rx([wire.headers(sid, sb(H.RESP), es=es)], ("headers", sid, es, False))
            if a in ("D1", "D1e"):
                es = a.endswith("e")
                return h.rx([wire.data(1, b"abc", es=es)], ("data", 1, es))
            if a == "R1":
                return h.rx([wire.rst_stream(1, 8)], ("rst", 1))
            if a == "PP1_2":
                return h.rx([wire.push_promise(1, 2, sb(H.REQ))], ("push", 1, 2))
            if a == "iws0":
                # the peer lowers INITIAL_WINDOW_SIZE to 0: a stream that has sent data already is left with a negative window
                return h.rx([wire.settings([(wire.S_INITIAL_WINDOW_SIZE, 0)])])
            if a in ("mfs-up", "mfs-down"):
                return h.rx([wire.settings([(wire.S_MAX_FRAME_SIZE, 20000 if a == "mfs-up" else 16384)])])
        raise ValueError(lab)

    def apply(self, st, lab):
        viols = []

        def bad(kind, msg, **sig):
            s = {"kind": kind}
            s.update(sig)
            viols.append({"kind": kind, "sig": s, "msg": msg})

        h = st.h
        if lab in self.build:
            o = self._build(st, lab)
            if o is None:
                return Step("cleanup")
            # build actions are judged for exception type + silence only
            if lab.startswith("l:"):
                a = lab[2:]
                if a.startswith(("req", "resp")) and a[-1] != "x":
                    st.attempted.add(int(a.rstrip("e")[-1]))
                if a == "push1_2":
                    st.attempted.add(2)
                if o.kind == "raise":
                    st.dirty = True
                self._judge_generic(bad, lab.split(":")[1], lab, o, documented=False)
                return Step("build-" + o.kind + (":" + o.exc_name if o.exc_name else ""), viols)
            if o.kind == "raise" and not o.is_proto:
                bad("recv-bad-exception", "%s -> %s in %s" % (lab, o.exc_name, o.where),
                    exc=o.exc_name, where=o.where)
            return Step("rx-" + o.kind, viols)

        # ---- misuse / probe call
        st.budget -= 1
        _, method, spec = self.menu_by_label[lab]
        conn = h.conn
        snap = None
        args = ()
        kw = {}
        documented = False
        strict_sid = None
        if method == "send_headers":
            sid, hl, es = spec
            args = (sid, self._hdrs(hl))
            kw = {"end_stream": es}
        elif method == "send_headers_w300":
            sid, hl = spec
            method = "send_headers"
            args = (sid, self._hdrs(hl))
            kw = {"priority_weight": 300}
        elif method == "send_headers_sized_p":
            (d,) = spec
            method = "send_headers"
            F = conn.max_outbound_frame_size
            args = (2, H.sized_headers(H.RESP, F + d))
        elif method == "send_headers_sized":
            d, prio = spec
            method = "send_headers"
            try:
                sid = conn.get_next_available_stream_id() if self.client else (
                    1 if h.m.status(1) == "live" else 1)
            except Exception:  # noqa: BLE001
                sid = 1
            F = conn.max_outbound_frame_size
            base = H.REQ if self.client else H.RESP
            args = (sid, H.sized_headers(base, F + d))
            if prio:
                kw = {"priority_weight": 10, "priority_depends_on": 0, "priority_exclusive": False}
        elif method == "send_data":
            sid, size, es, pad = spec
            try:
                W = conn.local_flow_control_window(sid)
            except Exception:  # noqa: BLE001
                W = 65535
            F = conn.max_outbound_frame_size
            n = {"0": 0, "1": 1, "W": max(W, 0), "W+1": max(W, 0) + 1, "F+1": F + 1, "F": F}[size]
            args = (sid, b"d" * n)
            kw = {"end_stream": es, "pad_length": pad}
            documented = pad is not None and (not isinstance(pad, int) or pad < 0 or pad > 255)
            if pad is None:
                strict_sid = sid
        elif method == "end_stream":
            args = spec
            strict_sid = spec[0]
        elif method == "increment_flow_control_window":
            inc, sid = spec
            args = (inc,)
            kw = {"stream_id": sid}
            documented = not (1 <= inc <= 2 ** 31 - 1)
            if not documented and sid is not None:
                strict_sid = sid
        elif method == "reset_stream":
            args = spec
            strict_sid = spec[0]
        elif method == "acknowledge_received_data":
            sz, sid = spec
            args = spec
            documented = sz < 0 or sid <= 0
            if not documented:
                strict_sid = sid
        elif method in ("local_flow_control_window", "remote_flow_control_window"):
            args = spec
            strict_sid = spec[0]
        elif method == "push_stream":
            sid, prom, _ = spec
            args = (sid, prom, H.ni(H.REQ))
            if not self.client:
                strict_sid = sid
        elif method == "advertise_alternative_service":
            field, origin, sid = spec
            args = (field,)
            kw = {"origin": origin, "stream_id": sid}
            documented = (not isinstance(field, bytes)) or (origin is not None and sid is not None)
            if not documented and origin is None and not self.client:
                strict_sid = sid
        elif method == "prioritize":
            sid, w, dep, ex = spec
            args = (sid,)
            kw = {"weight": w, "depends_on": dep, "exclusive": ex}
        elif method == "ping":
            args = spec
            documented = not (isinstance(spec[0], bytes) and len(spec[0]) == 8)
        else:
            args = spec

        status = h.m.status(strict_sid) if strict_sid is not None else None
        strict = (strict_sid is not None and status in ("forgotten", "maybe_forgotten", "unused_high")
                  and not h.m.closed and (h.m.hi_local or h.m.hi_peer))
        # (until the repairs 005d047 / 1296ece a refused send_headers / push_stream could leave the stream it was going to
        # open behind, and the expectation was waived for ids handed to a refused call; it no longer is)
        if method == "send_headers":
            st.attempted.add(args[0])
        if method == "push_stream":
            st.attempted.add(args[1])
        if strict:
            snap = pickle.dumps(conn)
        proj0 = H.quiescent_projection(conn)
        o = h.api(method, *args, **kw)
        if o.kind == "raise":
            # refused before any state machine was asked (arguments, ids, windows, limits, header lists): nothing at all may
            # have changed.  A refusal that comes out of a state machine closes that machine (C01's known finding): then the
            # connection state and the set of live streams are left out of the comparison, everything else still counts.
            diff = H.projection_diff(proj0, H.quiescent_projection(conn))
            if o.via_fsm:
                diff = [d for d in diff if d not in ("connection state", "live streams")]
            if diff:
                bad("refused-call-changed-state", "%s raised %s (%s) but changed: %s" % (lab, o.exc_name, o.msg, ", ".join(diff)),
                    call=method, exc=o.exc_name, changed=",".join(diff))
        if o.kind == "raise":
            st.dirty = True
        extra = {}
        if method == "send_headers":
            extra["prio"] = bool(kw.get("priority_weight"))
        if method == "prioritize":
            extra["sid0"] = (args[0] == 0)
        self._judge_generic(bad, method, lab, o, documented, extra)
        if strict:
            if status in ("forgotten", "maybe_forgotten"):
                # (maybe_forgotten: a promised stream this endpoint refused - whether it still keeps an object for it or not,
                # the stream is closed, not unknown)
                if method == "acknowledge_received_data":
                    ok = o.kind == "ok"
                    exp = "success"
                else:
                    ok = o.kind == "raise" and o.exc_name == "StreamClosedError"
                    exp = "StreamClosedError"
            else:
                ok = o.kind == "raise" and o.exc_name == "NoSuchStreamError"
                exp = "NoSuchStreamError"
            if not ok and not (o.kind == "raise" and not o.is_h2):
                # tolerate if the connection itself was already unusable
                c2 = pickle.loads(snap)
                try:
                    c2.ping(b"12345678")
                    alive = True
                except Exception:  # noqa: BLE001
                    alive = False
                if alive:
                    bad("wrong-lookup-outcome",
                        "%s on %s stream %d: expected %s, got %s" % (
                            method, status, strict_sid, exp, o.brief()),
                        call=method, status=status, expected=exp,
                        got=(o.exc_name or "success"))
        out = "probe-" + o.kind + (":" + o.exc_name if o.exc_name else "")
        return Step(out, viols)

    def _judge_generic(self, bad, method, lab, o, documented, extra=None):
        extra = extra or {}
        if o.kind == "raise":
            if o.is_h2:
                pass
            elif o.exc_name in ("ValueError", "TypeError") and documented:
                pass
            else:
                bad("undocumented-exception",
                    "%s raised %s (%s) in %s" % (lab, o.exc_name, o.msg, o.where),
                    call=method, exc=o.exc_name, where=o.where, **extra)
            if o.raw:
                bad("raise-emitted-bytes",
                    "%s raised %s but added %d bytes to the output: %s" % (
                        lab, o.exc_name, len(o.raw), o.brief()),
                    call=method, exc=o.exc_name, **extra)
        if o.wire_error and o.kind == "ok":
            bad("malformed-output", "%s: %s" % (lab, o.wire_error), call=method)


def make_spec(key):
    return Spec(key)


def run(ctx):
    for role in ("server", "client"):
        ctx.explore(("c29", role, ctx.tier))
