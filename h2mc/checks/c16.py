"""C16 - Content-Length is enforced as RFC 7540 section 8.1.2.6 requires.

Bounded-exhaustive enumeration of short histories on the real connection:
the full product of direction (request received by a server / response
received by a client), request method (GET, HEAD, HEAD followed by request
trailers, POST), response status (200, 204, 304, 205, 404, 100-then-200, 100-then-204),
content-length (absent, 0, 4, 5, on the 1xx only), DATA chunking with and
without padding, and END_STREAM placement (HEADERS, last DATA, separate empty
DATA, trailers).  Each history is delivered frame by frame to a clone of an
explored base state; the verdict (accepted with StreamEnded / rejected) is
compared with the RFC 7540 8.1.2.6 model.
"""
import itertools
import pickle

from .. import harness as H
from .. import wire

PROPERTY = "C16"
TECHNIQUE = "bounded-exhaustive enumeration of message histories executed on the real connection, judged by an RFC 7540 8.1.2.6 reference model"
RULE = ("one evaluation = one complete message history (a sequence of peer frames, each delivered by its own receive_data call, "
        "all prefixes judged); non-trivial = the reference model rejects it, or it carries padding/trailers/1xx or a no-content status")

CHUNKINGS = [
    ("none", []),
    ("5", [(5, None)]),
    ("2+3", [(2, None), (3, None)]),
    ("0", [(0, None)]),
    ("0+5", [(0, None), (5, None)]),
    ("3", [(3, None)]),
    ("6", [(6, None)]),
    ("5pad2", [(5, 2)]),
    ("4pad1", [(4, 1)]),
    ("4pad0", [(4, 0)]),
    ("1+1+1+1+1", [(1, None)] * 5),
]
ES_PLACES = ["headers", "lastdata", "emptydata", "trailers"]
CLS = [None, b"0", b"4", b"5"]
ALPHABET = ("methods GET/HEAD/HEAD+trailers/POST; statuses 200/204/304/205/404/100->200/100->204; content-length absent/0/4/5 (and on the 1xx only); "
            "chunkings %s; END_STREAM on %s" % ([c[0] for c in CHUNKINGS], ES_PLACES))
BOUNDS = {"quick": "full product (both directions) x {plain, header_encoding=utf-8, a PUSH_PROMISE for the other kind of method before the response, a content-length field in the trailers, a refused second send_headers with the other kind of method}", "thorough": "full product, additionally with a second concurrent stream in flight and every 2-frame batching of the history"}


def build_cases(tier):
    cases = []
    # direction A: request received by a server
    for method in (b"GET", b"HEAD", b"POST"):
        for cl in CLS:
            for (cn, chunks), esp in itertools.product(CHUNKINGS, ES_PLACES):
                if esp == "headers" and chunks:
                    continue
                if esp == "lastdata" and not chunks:
                    continue
                cases.append(("A", method, None, cl, None, cn, esp))
    # direction B: response received by a client
    for method in (b"GET", b"HEAD", b"HEAD+T", b"POST"):
        for status in ("200", "204", "304", "100-200", "100-204", "205", "404"):     # 205 and 404: ordinary statuses as far as 8.1.2.6 goes
            cl_opts = [(cl, None) for cl in CLS]
            if status.startswith("100"):
                cl_opts.append((None, b"5"))    # content-length on the 1xx only
            for (cl, cl1xx) in cl_opts:
                for (cn, chunks), esp in itertools.product(CHUNKINGS, ES_PLACES):
                    if esp == "headers" and chunks:
                        continue
                    if esp == "lastdata" and not chunks:
                        continue
                    cases.append(("B", method, status, cl, cl1xx, cn, esp))
    return cases


def expected(case):
    """-> 'accept' | 'reject' per RFC 7540 8.1.2.6 / RFC 7230 3.3.2."""
    direction, method, status, cl, cl1xx, cn, esp = case
    chunks = dict(CHUNKINGS)[cn]
    total = sum(n for n, _ in chunks)
    if direction == "B":
        final = status.split("-")[-1]
        no_content = method in (b"HEAD", b"HEAD+T") or final in ("204", "304")
        if no_content:
            return "reject" if total > 0 else "accept"
    if cl is None:
        return "accept"
    return "accept" if int(cl) == total else "reject"


_BASES = {}


# plain | header_encoding='utf-8' | header validation off (the length rules are not header-list rules) | a PUSH_PROMISE
# (other method) before the response
# trailercl: the trailers carry a content-length field of their own (7) - it says nothing about the message
# othermethod: the client application makes a second, refused send_headers on the open request with the other kind of method
VARIANTS = [None, "utf8", "novalidate", "push", "trailercl", "othermethod"]


def base(direction, variant=None):
    k = (direction, variant if variant in ("utf8", "novalidate") else None)
    if k not in _BASES:
        cfg = {"utf8": {"header_encoding": "utf-8"}, "novalidate": {"validate_inbound_headers": False}}.get(variant, {})
        h = H.Solo(client=(direction == "B"), **cfg)
        _BASES[k] = pickle.dumps(h.conn)
    return pickle.loads(_BASES[k])


def frames_for(case):
    direction, method, status, cl, cl1xx, cn, esp = case
    chunks = dict(CHUNKINGS)[cn]
    sb = H.stateless_block
    fr = []
    if direction == "A":
        hdrs = [(b":method", method), (b":scheme", b"https"), (b":path", b"/"), (b":authority", b"example.com")]
    else:
        final = status.split("-")[-1]
        if status.startswith("100"):
            h1 = [(b":status", b"100")]
            if cl1xx is not None:
                h1.append((b"content-length", cl1xx))
            fr.append(wire.headers(1, sb(h1)))
        hdrs = [(b":status", final.encode())]
    if cl is not None:
        hdrs.append((b"content-length", cl))
    fr.append(wire.headers(1, sb(hdrs), es=(esp == "headers")))
    for i, (n, pad) in enumerate(chunks):
        last = i == len(chunks) - 1
        fr.append(wire.data(1, b"x" * n, es=(last and esp == "lastdata"), pad=pad))
    if esp == "emptydata":
        fr.append(wire.data(1, b"", es=True))
    elif esp == "trailers":
        fr.append(wire.headers(1, sb([(b"x-trailer", b"1")]), es=True))
    return fr


def run_case(case, batching=None, variant=None):
    direction, method, status, cl, cl1xx, cn, esp = case
    conn = base(direction, variant)
    if direction == "B":
        m = b"HEAD" if method.startswith(b"HEAD") else method
        req = [(b":method", m), (b":scheme", b"https"), (b":path", b"/"), (b":authority", b"example.com")]
        with_trailers = method == b"HEAD+T"
        o = H.call(conn, "send_headers", 1, H.ni(req), end_stream=not (with_trailers or variant == "othermethod"))
        assert o.kind == "ok", o.brief()
        if variant == "othermethod":
            other = b"GET" if m == b"HEAD" else b"HEAD"
            o = H.call(conn, "send_headers", 1, H.ni([(b":method", other)] + req[1:]))
            assert o.kind == "raise" and not o.raw, o.brief()
            if not with_trailers:
                o = H.call(conn, "end_stream", 1)
                assert o.kind == "ok", o.brief()
        if with_trailers:
            o = H.call(conn, "send_headers", 1, H.ni([(b"x-req-trailer", b"1")]), end_stream=True)
            assert o.kind == "ok", o.brief()
    if variant == "push" and direction == "B":
        # a promise on the request's stream, for a request with the OTHER kind of method: the promised request is not
        # the request this response answers
        other = b"GET" if method.startswith(b"HEAD") else b"HEAD"
        preq = [(b":method", other), (b":scheme", b"https"), (b":path", b"/pushed"), (b":authority", b"example.com")]
        o = H.recv(conn, wire.push_promise(1, 2, H.stateless_block(preq)).serialize())
        assert o.kind == "ok", o.brief()
    frs = frames_for(case)
    if variant == "trailercl" and esp == "trailers":
        frs[-1] = wire.headers(1, H.stateless_block([(b"x-trailer", b"1"), (b"content-length", b"7")]), es=True)
    groups = [[f] for f in frs]
    if batching is not None and len(frs) > batching + 1:
        groups = [[f] for f in frs[:batching]] + [frs[batching:batching + 2]] + [[f] for f in frs[batching + 2:]]
    ended = False
    for g in groups:
        o = H.recv(conn, wire.ser(g))
        if o.kind == "raise":
            if not o.is_proto:
                return "crash:" + o.exc_name, o
            return "reject", o
        if any(f.type == wire.RST_STREAM and f.sid == 1 for f in o.frames):
            return "reject", o
        if any(type(e).__name__ == "StreamEnded" for e in o.events):
            ended = True
    return ("accept" if ended else "incomplete"), None


def case_sig(case, exp, got):
    direction, method, status, cl, cl1xx, cn, esp = case
    chunks = dict(CHUNKINGS)[cn]
    total = sum(n for n, _ in chunks)
    rel = "absent" if cl is None else ("match" if int(cl) == total else ("short" if total < int(cl) else "long"))
    final = status.split("-")[-1] if status else None
    nocontent = "no"
    if direction == "B":
        if method == b"HEAD":
            nocontent = "head"
        elif method == b"HEAD+T":
            nocontent = "head+trailers"
        elif final in ("204", "304"):
            nocontent = final
    return {"kind": "content-length", "dir": direction, "nocontent": nocontent,
            "cl": rel, "cl_on_1xx": cl1xx is not None, "has_payload": total > 0, "es_on": esp,
            "padded": any(p is not None for _, p in chunks),
            "informational_first": bool(status and status.startswith("100")),
            "expected": exp, "got": got}


def shard(job):
    cases = job["cases"]
    outcomes = {}
    viols = {}
    nontrivial = 0
    samples = []
    n = 0
    for case in cases:
        for batching, variant in itertools.product(job["batchings"], job.get("variants", [None])):
            if variant in ("push", "othermethod") and case[0] != "B":
                continue
            if variant == "trailercl" and case[6] != "trailers":
                continue
            exp = expected(case)
            got, o = run_case(case, batching, variant)
            n += 1
            outcomes[exp + "/" + got] = outcomes.get(exp + "/" + got, 0) + 1
            direction, method, status, cl, cl1xx, cn, esp = case
            if exp == "reject" or esp == "trailers" or "pad" in cn or (status and status != "200") or method.startswith(b"HEAD"):
                nontrivial += 1
            if got != exp:
                sig = case_sig(case, exp, got)
                if variant:
                    sig["variant"] = variant
                k = repr(sorted(sig.items()))
                if k not in viols:
                    viols[k] = {"kind": "content-length", "sig": sig, "case": list(case) + [batching, variant],
                                "msg": "history %r (batching %r): expected %s, library %s%s" % (
                                    case, batching, exp, got, (" (" + o.brief() + ")") if o is not None else "")}
        if len(samples) < 2:
            samples.append({"case": repr(case), "frames": [f.brief() for f in frames_for(case)], "expected": expected(case)})
    return {"evaluations": n, "outcomes": outcomes, "nontrivial": nontrivial,
            "violations": list(viols.values()), "samples": samples}


def replay(rec):
    case = rec["case"]
    c = tuple(_unj(x) for x in case[:7])
    batching = case[7]
    variant = case[8] if len(case) > 8 else None
    exp = expected(c)
    got, o = run_case(c, batching, variant)
    if got != exp:
        sig = case_sig(c, exp, got)
        if variant:
            sig["variant"] = variant
        return [{"kind": "content-length", "sig": sig,
                 "msg": "history %r: expected %s, library %s" % (c, exp, got)}]
    return []


def _unj(x):
    if isinstance(x, str) and x.startswith("b:"):
        return x[2:].encode()
    return x


def make_spec(key):
    raise NotImplementedError


def run(ctx):
    cases = build_cases(ctx.tier)
    batchings = [None] if ctx.tier == "quick" else [None, 0, 1, 2, 3]
    n = 32
    jobs = [{"cases": cases[i::n], "batchings": batchings, "variants": VARIANTS} for i in range(n)]
    ctx.fanout("c16-product-%s" % ctx.tier, jobs, "shard",
               domain="%d message histories x %d batchings" % (len(cases), len(batchings)))
    ctx.fanouts[-1]["states"] = 2
