"""C08 - the library refuses to emit messages that violate HTTP/2 message rules.

Explicit-state BFS of one real connection (each role; handshaken and
h2c-upgraded start states) over local call programs: send_headers (request /
response / 1xx / trailers blocks, right and wrong for the role, +-END_STREAM)
on new, inbound, pushed and upgraded stream ids including fresh ids of the
wrong parity; send_data(+-END_STREAM); end_stream; push_stream; prioritize;
advertise_alternative_service; with peer HEADERS / PUSH_PROMISE / END_STREAM
supplied only to create inbound and reserved streams.

Oracle: an output-grammar monitor over the frames really EMITTED (parsed and
HPACK-decoded independently, block type classified from the decoded list): a
client never emits PUSH_PROMISE or ALTSVC and opens streams only with a
request block; a server never emits HEADERS on a stream the peer did not open
and it did not promise, and never PRIORITY; per stream and direction
(1xx)* final DATA* [trailers with END_STREAM]; no DATA or END_STREAM before
the final headers; no headers after trailers; no 1xx after the final response.
Every refusal must be a ProtocolError and emit nothing.
"""
from .. import harness as H
from .. import lifecycle as L
from .. import wire
from ..explorer import Step
from ..models import streams as SM

PROPERTY = "C08"
ALPHABET = "configurations {default, outbound validation+normalisation off}; local: refused-by-argument calls (invalid request list to send_headers / push_stream), send_headers with priority_depends_on=0 / priority_exclusive=False / priority_weight=16; send_headers {request,response,info,trailers} x {+-ES} on ids {1,3,2,4}, send_data/end_stream/reset on {1,2}, push_stream, prioritize, advertise_alternative_service (origin / stream); peer: opening HEADERS, PUSH_PROMISE, END_STREAM"
BOUNDS = {"quick": "depth 5, both roles, handshaken and upgraded start states", "thorough": "depth 8 (or time budget, reported)"}
sb = H.stateless_block


def block_class(hdrs):
    names = [n for n, v, _ in hdrs]
    if b":method" in names:
        return "request"
    for n, v, _ in hdrs:
        if n == b":status":
            return "info" if v.startswith(b"1") else "response"
    return "trailers"


CONFIGS = {"default": {}, "nocheck": {"validate_outbound_headers": False, "normalize_outbound_headers": False}}
BADREQ = [(b":method", b"GET"), (b":path", b"/")]           # refused by outbound validation: no :scheme / :authority
PRIO_KW = {"dep0": {"priority_depends_on": 0}, "exF": {"priority_exclusive": False}, "w16": {"priority_weight": 16},
           # invalid priority fields: the call is refused whatever the role, and opens nothing
           "self": {"priority_depends_on": "SELF"}, "w300": {"priority_weight": 300}}


class Spec(L.Spec):
    def __init__(self, key):
        _, role, start, cfg, tier = key
        client = role == "client"
        super().__init__(client, (5 if tier == "quick" else 8) - (1 if cfg != "default" else 0), upgraded=(start == "upgraded"))
        self.cfg = CONFIGS[cfg]
        self.name = "c08-%s-%s-%s-%s" % (role, start, cfg, tier)
        f, aux = self.sids
        p = self.promised
        A = []
        ids = [f, aux, p, p + 2]
        for sid in ids:
            for blk in ("request", "response", "info", "trailers"):
                A.append("l:hdr:%d:%s" % (sid, blk))
                A.append("l:hdr:%d:%s:es" % (sid, blk))
        for sid in (f, p):
            A += ["l:data:%d" % sid, "l:data:%d:es" % sid, "l:end:%d" % sid]
        A += ["l:rst:%d" % f, "l:push:%d:%d" % (f, p), "l:push:%d:%d" % (p, p + 2), "l:prio:%d" % f, "l:prio:%d" % (p + 6),
              "l:altsvc:origin", "l:altsvc:%d" % f]
        # calls the library must refuse for their arguments (they may not leave anything behind that a later call can use)
        A += ["l:badhdr:%d" % f, "l:badhdr:%d" % aux, "l:badpush:%d:%d" % (f, p)]
        # priority information given with header blocks: falsy but present values included
        for k in sorted(PRIO_KW):
            A.append("l:hdrp:%d:%s:%s" % (f, "request" if client else "response", k))
        # frames of the peer that report or change nothing as far as what we may SEND is concerned
        A += ["rx:altsvc:%d" % f, "rx:prio:%d" % f, "rx:wu:%d" % f, "rx:wu:%d" % p]
        if client:
            A += ["rx:hdr:%d:response" % f, "rx:hdr:%d:response:es" % f, "rx:push:%d:%d" % (f, p), "rx:hdr:%d:response" % p,
                  "rx:data:%d:es" % f]
        else:
            A += ["rx:hdr:%d:request" % f, "rx:hdr:%d:request:es" % f, "rx:hdr:%d:request" % aux, "rx:data:%d:es" % f]
        self.menu = A + ["cleanup"]

    def initial(self):
        st = L.LState(self.client, self.upgraded, **self.cfg)
        self.init_extra(st)
        return [("upgraded" if self.upgraded else "handshaken", st)]

    def apply(self, st, lab):
        """as the shared lifecycle system, except that a path goes on after a refused LOCAL call: the output grammar is
        judged against what is on the wire, and the statement covers every program, calls after a refusal included"""
        viols = []

        def bad(kind, msg, **sig):
            s = {"kind": kind, "role": "client" if self.client else "server"}
            s.update(sig)
            viols.append({"kind": kind, "sig": s, "msg": msg})

        o, info = self.execute(st, lab)
        if o is None:
            return Step("cleanup", viols)
        out = self.judge(st, lab, info, o, bad)
        if o.kind == "raise" and info["dir"] == "rx":
            st.dead = True
            return Step(out, viols, prune=True)
        if viols:
            st.dead = True
        return Step(out, viols)

    def execute(self, st, lab):
        parts = lab.split(":")
        if parts[0] == "rx" and parts[1] in ("altsvc", "prio"):
            sid = int(parts[2])
            fr = wire.altsvc(sid, b"", b'h2=":443"') if parts[1] == "altsvc" else wire.priority(sid, 0, 5, False)
            return st.h.rx([fr]), {"dir": "rx", "kind": parts[1], "es": False, "sid": sid}
        if parts[0] == "l" and parts[1] in ("badhdr", "badpush", "hdrp"):
            h = st.h
            m = h.m
            sid = int(parts[2])
            s = m.get(sid)
            info = {"dir": "l", "kind": parts[1], "es": False, "sid": sid, "status": m.status(sid),
                    "state": s.state if s is not None else "idle", "sent": s.sent if s is not None else "none",
                    "recv": s.recv if s is not None else "none", "must_refuse": parts[1] != "hdrp" and bool(not self.cfg)}
            if parts[1] == "badhdr":
                o = h.api("send_headers", sid, H.ni(BADREQ))
            elif parts[1] == "badpush":
                o = h.api("push_stream", sid, int(parts[3]), H.ni(BADREQ))
            else:
                info["prio_kw"] = parts[4]
                info["must_refuse"] = (not self.client) or parts[4] in ("self", "w300")
                kw = {k: (sid if v == "SELF" else v) for k, v in PRIO_KW[parts[4]].items()}
                o = h.api("send_headers", sid, H.ni(L.BLOCKS[parts[3]]), **kw)
            return o, info
        if parts[0] == "l" and parts[1] in ("prio", "altsvc"):
            h = st.h
            info = {"dir": "l", "kind": parts[1], "es": False, "sid": 0}
            if parts[1] == "prio":
                sid = int(parts[2])
                info["sid"] = sid
                o = h.api("prioritize", sid, weight=5)
            elif parts[2] == "origin":
                o = h.api("advertise_alternative_service", b'h2=":443"', origin=b"example.com")
            else:
                sid = int(parts[2])
                info["sid"] = sid
                o = h.api("advertise_alternative_service", b'h2=":443"', stream_id=sid)
            return o, info
        return super().execute(st, lab)

    def judge(self, st, lab, info, o, bad):
        if info["dir"] == "rx":
            return "rx-" + o.kind
        m = st.h.m
        client = self.client
        if o.kind == "raise":
            if not o.is_proto and not (o.exc_name == "RFC1122Error" and info["kind"] in ("prio", "hdrp")):
                bad("refusal-not-protocol-error", "%s refused with %s (%s)" % (lab, o.exc_name, o.msg), exc=o.exc_name,
                    action=info["kind"])
            if o.raw:
                bad("refused-call-emitted", "%s raised %s but emitted %s" % (lab, o.exc_name, o.brief()), action=info["kind"])
            return "l-refused"
        # ---- the call succeeded: every emitted frame must fit the output grammar.  The tracker has
        # already absorbed these frames, so the pre-call view is taken from `info`.
        blocks = {id(b[0]): b[1] for b in o.blocks}
        sent = info.get("sent", "none")
        state = info.get("state", "idle")
        for f in o.frames:
            if f.type == wire.PUSH_PROMISE:
                if client:
                    bad("client-emitted-push-promise", "%s emitted %s" % (lab, f.brief()))
                else:
                    par = info["state"]
                    if par not in ("open", "hc_remote") or info["sid"] % 2 == 0:
                        bad("push-on-wrong-parent", "%s: PUSH_PROMISE emitted on parent in state %s" % (lab, par), parent_state=par,
                            parent_even=(info["sid"] % 2 == 0))
            elif f.type == wire.ALTSVC:
                if client:
                    bad("client-emitted-altsvc", "%s emitted %s" % (lab, f.brief()))
            elif f.type == wire.PRIORITY:
                if not client:
                    bad("server-emitted-priority", "%s emitted %s" % (lab, f.brief()))
            elif f.type == wire.HEADERS:
                if f.f["prio"] is not None and not client:
                    bad("server-emitted-priority", "%s emitted HEADERS carrying priority fields %r" % (lab, f.f["prio"]), carrier="HEADERS")
                hdrs = blocks.get(id(f))
                if hdrs is None:
                    bad("undecodable-headers", "%s emitted an undecodable block" % lab)
                    continue
                cls = block_class(hdrs)
                if self.cfg:
                    # outbound validation is off: the application vouches for the content of its header lists, the
                    # library only recognises informational responses (by :status 1xx); everything else is what its
                    # position makes it - the first block is the request / final response, a later one the trailers
                    if not (cls == "info" and not client):
                        cls = ("request" if client else "response") if sent == "none" else "trailers"
                if state == "idle":
                    if not client:
                        bad("server-opened-stream-with-headers", "%s: server emitted HEADERS (%s block) on stream %d which the peer did not open and was not promised" % (
                            lab, cls, f.sid), block=cls)
                    elif cls != "request":
                        bad("client-opened-stream-without-request", "%s: client opened stream %d with a %s block" % (lab, f.sid, cls), block=cls)
                    elif f.sid % 2 == 0:
                        bad("client-opened-even-stream", "%s: client opened stream %d" % (lab, f.sid))
                    continue
                if state in ("hc_local", "closed", "reserved_remote"):
                    bad("headers-on-unsendable-stream", "%s: HEADERS emitted on a stream in state %s" % (lab, state), state=state)
                    continue
                is_request_side = client
                if cls == "request":
                    bad("second-request-on-stream", "%s: request block emitted on existing stream %d" % (lab, f.sid))
                elif cls == "info":
                    if is_request_side:
                        bad("client-emitted-informational", "%s" % lab)
                    elif sent != "none":
                        bad("informational-after-final", "%s: 1xx emitted after the final response" % lab)
                    if f.f["es"]:
                        bad("informational-with-end-stream", "%s" % lab)
                elif cls == "response":
                    if is_request_side:
                        bad("client-emitted-response", "%s" % lab)
                    elif sent != "none":
                        bad("second-final-response", "%s: final response emitted twice" % lab)
                else:   # trailers
                    if sent != "final":
                        bad("trailers-out-of-place", "%s: trailers emitted with message phase %s" % (lab, sent), phase=sent)
                    if not f.f["es"]:
                        bad("trailers-without-end-stream", "%s" % lab)
                    sent = "trailers"
                if cls == "response":
                    sent = "final"
            elif f.type == wire.DATA:
                if state in ("idle", "hc_local", "closed", "reserved_remote", "reserved_local"):
                    bad("data-on-unsendable-stream", "%s: DATA emitted on a stream in state %s" % (lab, state), state=state)
                elif sent != "final":
                    bad("data-before-final-headers" if sent == "none" else "data-after-trailers",
                        "%s: DATA%s emitted with message phase %s" % (lab, " (END_STREAM)" if f.f["es"] else "", sent),
                        es=f.f["es"])
        return "l-ok"


def make_spec(key):
    if len(key) == 4:       # replay records written before the configuration dimension existed
        key = (key[0], key[1], key[2], "default", key[3])
    return Spec(key)


def run(ctx):
    quick = ctx.tier == "quick"
    for role in ("server", "client"):
        for start in ("handshaken", "upgraded"):
            for cfg in sorted(CONFIGS):
                ctx.explore(("c08", role, start, cfg, ctx.tier), time_budget=None if quick else 300)
