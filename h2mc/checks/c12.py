"""C12 - SETTINGS values are validated with the RFC-mandated error codes.

Bounded-exhaustive fan-out from a set of explored connection states: for each
base state (fresh after handshake, stream open with default windows, stream
whose outbound window was pushed near 2^31-1 by WINDOW_UPDATE; both roles) and
each (identifier, value) of the grid, the setting is delivered by three routes
- a received SETTINGS frame, ``update_settings`` and
``Settings(initial_values=...)`` - on a clone of the real connection, and the
outcome is compared with the RFC 7540 6.5.2 / RFC 8441 table.
"""
import pickle

from .. import harness as H
from .. import wire

PROPERTY = "C12"
VALUES = [0, 1, 2, 100, 2 ** 14 - 1, 2 ** 14, 2 ** 14 + 1, 2 ** 24 - 1, 2 ** 24,
          2 ** 31 - 1, 2 ** 31, 2 ** 32 - 1]
QUICK_IDS = list(range(0, 17)) + [0xff, 0x100, 0x102, 0x1ff, 0xffff]
ALPHABET = ("identifiers: quick %s, thorough all 0..65535; values %s; routes: received frame, update_settings, "
            "Settings(initial_values); base states: handshaken / stream open / stream window raised to within 10 of 2^31-1 (an open stream; a promised, still reserved stream); "
            "both roles; plus two-entry frames (valid,invalid) in both orders and INITIAL_WINDOW_SIZE deltas landing exactly on / one past 2^31-1"
            % (QUICK_IDS, VALUES))
BOUNDS = {"quick": "full grid product for 22 identifiers", "thorough": "full grid product for all 65536 identifiers"}
RULE = ("one evaluation = one (state, route, identifier, value) executed on a clone of the real connection; "
        "non-trivial = the value is rejected or lies on a range boundary of a known setting")
TECHNIQUE = "bounded-exhaustive input fan-out from explored states of the real connection, judged against the RFC 7540 6.5.2 / RFC 8441 table"

PE, FCE = wire.PROTOCOL_ERROR, wire.FLOW_CONTROL_ERROR


def expected_code(sid, v):
    """RFC table: None = acceptable, else mandated error code."""
    if sid == wire.S_ENABLE_PUSH and v not in (0, 1):
        return PE
    if sid == wire.S_ENABLE_CONNECT_PROTOCOL and v not in (0, 1):
        return PE
    if sid == wire.S_INITIAL_WINDOW_SIZE and v > 2 ** 31 - 1:
        return FCE
    if sid == wire.S_MAX_FRAME_SIZE and not (2 ** 14 <= v <= 2 ** 24 - 1):
        return PE
    return None


def base_states():
    """[(name, role, pickled conn, near_max_stream_window)]"""
    out = []
    for client in (False, True):
        role = "client" if client else "server"
        h = H.Solo(client)
        out.append(("handshaken-" + role, client, pickle.dumps(h.conn), None))
        # a stream that can send: open it
        if client:
            h.api("send_headers", 1, H.ni(H.REQ))
        else:
            h.rx([wire.headers(1, H.stateless_block(H.REQ))], ("headers", 1, False, False))
        out.append(("open-" + role, client, pickle.dumps(h.conn), 65535))
        inc = (2 ** 31 - 1 - 10) - 65535
        o = h.rx([wire.window_update(1, inc)])
        assert o.kind == "ok", o.brief()
        out.append(("nearmax-" + role, client, pickle.dumps(h.conn), 2 ** 31 - 1 - 10))
    for client in (False, True):
        h = H.Solo(client)
        if client:
            h.api("send_headers", 1, H.ni(H.REQ_POST))
        else:
            h.rx([wire.headers(1, H.stateless_block(H.REQ))], ("headers", 1, False, False))
            h.api("send_headers", 1, H.ni(H.RESP))
        o = h.api("send_data", 1, b"x" * 1000)
        assert o.kind == "ok", o.brief()
        out.append(("sent1000-" + ("client" if client else "server"), client, pickle.dumps(h.conn), 65535 - 1000))
    # a server whose only near-maximum send window belongs to a stream it has promised but not yet started (reserved)
    h = H.Solo(False)
    for o in (h.rx([wire.headers(1, H.stateless_block(H.REQ))], ("headers", 1, False, False)),
              h.api("push_stream", 1, 2, H.ni(H.REQ)),
              h.rx([wire.window_update(2, (2 ** 31 - 1 - 10) - 65535)])):
        assert o.kind == "ok", o.brief()
    out.append(("nearmax-reserved-server", False, pickle.dumps(h.conn), 2 ** 31 - 1 - 10))
    return out


_BASE = None


def _bases():
    global _BASE
    if _BASE is None:
        _BASE = base_states()
    return _BASE


def _v(kind, msg, **sig):
    s = {"kind": kind}
    s.update(sig)
    return {"kind": kind, "sig": s, "msg": msg}


def code_class(c):
    return None if c is None else wire.err_name(int(c))


def run_case(name, client, blob, win, ident, value, viols, outcomes):
    import h2.settings
    import h2.exceptions
    exp = expected_code(ident, value)
    known = ident in (1, 2, 3, 4, 5, 6, 8)
    idclass = str(ident) if known else "unknown"
    # --- route 1: received frame
    conn = pickle.loads(blob)
    o = H.recv(conn, wire.settings([(ident, value)]).serialize())
    exp_r = exp
    if exp is None and ident == wire.S_INITIAL_WINDOW_SIZE and win is not None:
        # delta applies to the existing stream window
        if win + (value - 65535) > 2 ** 31 - 1:
            exp_r = FCE
    if exp_r is None:
        if o.kind != "ok":
            viols.append(_v("valid-setting-rejected",
                            "%s: received SETTINGS (%d=%d) rejected: %s" % (name, ident, value, o.brief()),
                            route="recv", id=idclass, got=o.exc_name))
        else:
            acks = [f for f in o.frames if f.type == wire.SETTINGS and f.f["ack"]]
            evs = [e for e in o.events if type(e).__name__ == "RemoteSettingsChanged"]
            if len(acks) != 1 or len(o.frames) != 1:
                viols.append(_v("settings-ack-count", "%s: SETTINGS (%d=%d) answered with %s" % (name, ident, value, o.brief()),
                                route="recv", id=idclass))
            if len(evs) != 1:
                viols.append(_v("settings-event-count", "%s: %d RemoteSettingsChanged" % (name, len(evs)),
                                route="recv", id=idclass))
            else:
                ch = evs[0].changed_settings
                keys = [int(k) for k in ch]
                if keys != [ident] or ch[list(ch)[0]].new_value != value:
                    viols.append(_v("settings-event-content", "%s: (%d=%d) reported as %r" % (name, ident, value, ch),
                                    route="recv", id=idclass))
            try:
                got = conn.remote_settings[ident]
            except KeyError:
                got = None
            if got != value:
                viols.append(_v("setting-not-applied", "%s: remote_settings[%d]=%r after receiving %d" % (name, ident, got, value),
                                route="recv", id=idclass))
        outcomes["recv-accepted"] = outcomes.get("recv-accepted", 0) + 1
    else:
        gos = [f for f in o.frames if f.type == wire.GOAWAY]
        ok = (o.kind == "raise" and o.is_proto and int(o.code) == exp_r and
              len(gos) == 1 and gos[0].f["code"] == exp_r)
        if not ok:
            viols.append(_v("invalid-setting-wrong-outcome",
                            "%s: received SETTINGS (%d=%d) must be a %s connection error, got %s" % (
                                name, ident, value, wire.err_name(exp_r), o.brief()),
                            route="recv", id=idclass, expected=wire.err_name(exp_r),
                            got=(code_class(o.code) if o.kind == "raise" else "accepted")))
        outcomes["recv-rejected-" + wire.err_name(exp_r)] = outcomes.get("recv-rejected-" + wire.err_name(exp_r), 0) + 1
    # --- route 2: update_settings
    conn = pickle.loads(blob)
    o = H.call(conn, "update_settings", {ident: value})
    if exp is None:
        if o.kind != "ok":
            viols.append(_v("valid-setting-rejected", "%s: update_settings({%d:%d}) raised %s" % (name, ident, value, o.exc_name),
                            route="update", id=idclass, got=o.exc_name))
        outcomes["update-accepted"] = outcomes.get("update-accepted", 0) + 1
    else:
        ok = (o.kind == "raise" and o.exc_name == "InvalidSettingsValueError" and int(o.code) == exp and not o.raw)
        if not ok:
            viols.append(_v("invalid-setting-wrong-outcome",
                            "%s: update_settings({%d:%d}) must raise InvalidSettingsValueError(%s), got %s" % (
                                name, ident, value, wire.err_name(exp), o.brief()),
                            route="update", id=idclass, expected=wire.err_name(exp),
                            got=(code_class(o.code) if o.kind == "raise" else "accepted")))
        outcomes["update-rejected"] = outcomes.get("update-rejected", 0) + 1
    # --- route 3: initial values
    try:
        s = h2.settings.Settings(client=client, initial_values={ident: value})
        res = ("ok", s[ident])
    except h2.exceptions.InvalidSettingsValueError as e:
        res = ("invalid", int(e.error_code))
    except Exception as e:  # noqa: BLE001
        res = ("other", type(e).__name__)
    if exp is None:
        if res != ("ok", value):
            viols.append(_v("valid-setting-rejected", "Settings(initial_values={%d:%d}) -> %r" % (ident, value, res),
                            route="initial", id=idclass, got=str(res[1])))
        outcomes["initial-accepted"] = outcomes.get("initial-accepted", 0) + 1
    else:
        if res != ("invalid", exp):
            viols.append(_v("invalid-setting-wrong-outcome", "Settings(initial_values={%d:%d}) -> %r, expected InvalidSettingsValueError(%s)" % (
                ident, value, res, wire.err_name(exp)), route="initial", id=idclass, expected=wire.err_name(exp), got=str(res[1])))
        outcomes["initial-rejected"] = outcomes.get("initial-rejected", 0) + 1
    if name != "handshaken-server":
        return 3
    # --- route 4: the client's settings as a server receives them in the HTTP2-Settings header of an h2c upgrade
    import base64
    srv = H.new_conn(False)
    o = H.call(srv, "initiate_upgrade_connection", base64.urlsafe_b64encode(wire.settings([(ident, value)]).payload))
    if exp is None:
        try:
            got = srv.remote_settings[ident]
        except KeyError:
            got = None
        if o.kind != "ok" or got != value:
            viols.append(_v("valid-setting-rejected", "HTTP2-Settings header (%d=%d) -> %s, remote_settings shows %r" % (ident, value, o.brief(), got),
                            route="upgrade-header", id=idclass, got=o.exc_name or "not-applied"))
        outcomes["upgrade-header-accepted"] = outcomes.get("upgrade-header-accepted", 0) + 1
    else:
        if not (o.kind == "raise" and o.is_proto and int(o.code) == exp):
            viols.append(_v("invalid-setting-wrong-outcome", "HTTP2-Settings header (%d=%d) must be refused with %s, got %s" % (
                ident, value, wire.err_name(exp), o.brief()), route="upgrade-header", id=idclass, expected=wire.err_name(exp),
                got=(code_class(o.code) if o.kind == "raise" and o.is_proto else (o.exc_name or "accepted"))))
        outcomes["upgrade-header-rejected"] = outcomes.get("upgrade-header-rejected", 0) + 1
    return 4


def shard(job):
    ids = job["ids"]
    viols = []
    outcomes = {}
    n = 0
    nontrivial = 0
    samples = []
    for ident in ids:
        for value in VALUES:
            interesting = expected_code(ident, value) is not None or (
                ident in (2, 4, 5, 8) and value in (0, 1, 2 ** 14, 2 ** 24 - 1, 2 ** 31 - 1))
            for name, client, blob, win in _bases():
                n += run_case(name, client, blob, win, ident, value, viols, outcomes)
                if interesting:
                    nontrivial += 3
            if len(viols) > 200:
                break
    if job.get("extras"):
        n2, nt2 = extras(viols, outcomes, samples)
        n += n2
        nontrivial += nt2
    if ids:
        samples.append({"state": "open-server", "route": "recv", "setting": [ids[0], VALUES[-1]],
                        "expected": code_class(expected_code(ids[0], VALUES[-1])) or "accepted"})
    # dedupe violations by signature inside the shard, keep count small
    seen = {}
    for v in viols:
        k = repr(sorted(v["sig"].items()))
        if k not in seen:
            v["case"] = v["msg"]
            seen[k] = v
    return {"evaluations": n, "outcomes": outcomes, "nontrivial": nontrivial,
            "violations": list(seen.values()), "samples": samples, "states": 0}


def extras(viols, outcomes, samples):
    """Two-entry frames and exact window-overflow boundaries."""
    n = 0
    for name, client, blob, win in _bases():
        # (valid, invalid) in both orders: the frame must be refused with the
        # invalid entry's code
        for pairs, code in ([(3, 7), (2, 2)], PE), ([(2, 2), (3, 7)], PE), \
                ([(1, 0), (4, 2 ** 31)], FCE), ([(5, 2 ** 14 - 1), (1, 0)], PE):
            conn = pickle.loads(blob)
            o = H.recv(conn, wire.settings(pairs).serialize())
            gos = [f for f in o.frames if f.type == wire.GOAWAY]
            n += 1
            if not (o.kind == "raise" and o.is_proto and int(o.code) == code and len(gos) == 1
                    and gos[0].f["code"] == code):
                viols.append(_v("invalid-setting-wrong-outcome", "%s: SETTINGS %r -> %s" % (name, pairs, o.brief()),
                                route="recv-multi", id="multi", expected=wire.err_name(code),
                                got=(code_class(o.code) if o.kind == "raise" else "accepted")))
            outcomes["recv-multi-rejected"] = outcomes.get("recv-multi-rejected", 0) + 1
        if win is not None:
            # INITIAL_WINDOW_SIZE delta landing exactly on / one past 2^31-1
            for v, okay in ((65535 + (2 ** 31 - 1 - win), True), (65535 + (2 ** 31 - 1 - win) + 1, False)):
                if v > 2 ** 31 - 1:
                    continue
                conn = pickle.loads(blob)
                o = H.recv(conn, wire.settings([(4, v)]).serialize())
                n += 1
                if okay and o.kind != "ok":
                    viols.append(_v("valid-setting-rejected", "%s: IWS=%d lands exactly on 2^31-1 but -> %s" % (name, v, o.brief()),
                                    route="recv", id="4", got=o.exc_name))
                if not okay and not (o.kind == "raise" and o.is_proto and int(o.code) == FCE):
                    viols.append(_v("invalid-setting-wrong-outcome", "%s: IWS=%d overflows the stream window but -> %s" % (name, v, o.brief()),
                                    route="recv-delta", id="4", expected="FLOW_CONTROL_ERROR",
                                    got=(code_class(o.code) if o.kind == "raise" else "accepted")))
                outcomes["recv-delta-boundary"] = outcomes.get("recv-delta-boundary", 0) + 1
                samples.append({"state": name, "route": "recv", "setting": [4, v], "expected": "accepted" if okay else "FLOW_CONTROL_ERROR"})
    # the delta of a change is taken from the value in force, also when that value is 0: the stream window is raised by
    # 65535 (WINDOW_UPDATE), INITIAL_WINDOW_SIZE goes to 0 (window 65535 again), then to the value that lands on / one past 2^31-1
    for name, client, blob, win in _bases():
        if not name.startswith("open-"):
            continue
        for v, okay in ((2 ** 31 - 1 - 65535, True), (2 ** 31 - 65535, False)):
            conn = pickle.loads(blob)
            pre = [H.recv(conn, wire.window_update(1, 65535).serialize()), H.recv(conn, wire.settings([(4, 0)]).serialize())]
            o = H.recv(conn, wire.settings([(4, v)]).serialize())
            n += 1
            if any(x.kind != "ok" for x in pre) or (okay and o.kind != "ok"):
                viols.append(_v("valid-setting-rejected", "%s: WINDOW_UPDATE(1, 65535), IWS=0, IWS=%d (lands exactly on 2^31-1) -> %s" % (name, v, o.brief()),
                                route="recv-delta-from-zero", id="4", got=o.exc_name))
            if not okay and not (o.kind == "raise" and o.is_proto and int(o.code) == FCE):
                viols.append(_v("invalid-setting-wrong-outcome", "%s: WINDOW_UPDATE(1, 65535), IWS=0, IWS=%d overflows the stream window but -> %s" % (
                    name, v, o.brief()), route="recv-delta-from-zero", id="4", expected="FLOW_CONTROL_ERROR",
                    got=(code_class(o.code) if o.kind == "raise" else "accepted")))
            outcomes["recv-delta-from-zero"] = outcomes.get("recv-delta-from-zero", 0) + 1
    # a locally requested INITIAL_WINDOW_SIZE whose acknowledgement lands a RECEIVE window exactly on / one past 2^31-1
    for client in (False, True):
        h = H.Solo(client)
        h.rx([wire.settings([], ack=True)])
        if client:
            h.api("send_headers", 1, H.ni(H.REQ_POST))
        else:
            h.rx([wire.headers(1, H.stateless_block(H.REQ))], ("headers", 1, False, False))
        o = h.api("increment_flow_control_window", (2 ** 31 - 1 - 10) - 65535, stream_id=1)
        assert o.kind == "ok", o.brief()
        blob = pickle.dumps(h.conn)
        for v, okay in ((65535 + 10, True), (65535 + 11, False)):
            conn = pickle.loads(blob)
            o1 = H.call(conn, "update_settings", {4: v})
            o = H.recv(conn, wire.settings([], ack=True).serialize())
            n += 1
            if o1.kind != "ok" or (okay and o.kind != "ok"):
                viols.append(_v("valid-setting-rejected", "local IWS=%d acknowledged, receive window lands exactly on 2^31-1: %s / %s" % (
                    v, o1.brief(), o.brief()), route="local-delta", id="4", got=o.exc_name or o1.exc_name))
            gos = [f for f in o.frames if f.type == wire.GOAWAY]
            if not okay and not (o.kind == "raise" and o.is_proto and int(o.code) == FCE and len(gos) == 1 and gos[0].f["code"] == FCE):
                viols.append(_v("invalid-setting-wrong-outcome", "local IWS=%d acknowledged, a receive window would pass 2^31-1, but -> %s" % (v, o.brief()),
                                route="local-delta", id="4", expected="FLOW_CONTROL_ERROR",
                                got=(code_class(o.code) if o.kind == "raise" and o.is_proto else "accepted")))
            outcomes["local-delta-boundary"] = outcomes.get("local-delta-boundary", 0) + 1
        # the same stream window reached another way: raised by one byte by hand, one byte of DATA received and not yet
        # acknowledged (the window is 65535 again, the automatic-update target one more): the largest value is still in range
        h = H.Solo(client)
        h.rx([wire.settings([], ack=True)])
        if client:
            h.api("send_headers", 1, H.ni(H.REQ_POST))
            h.rx([wire.headers(1, H.stateless_block(H.RESP))], ("headers", 1, False, False))
        else:
            h.rx([wire.headers(1, H.stateless_block(H.REQ_POST))], ("headers", 1, False, False))
        for o in (h.api("increment_flow_control_window", 1, stream_id=1), h.rx([wire.data(1, b"x")], ("data", 1, False))):
            assert o.kind == "ok", o.brief()
        conn = h.conn
        o1 = H.call(conn, "update_settings", {4: 2 ** 31 - 1})
        o = H.recv(conn, wire.settings([], ack=True).serialize())
        n += 1
        if o1.kind != "ok" or o.kind != "ok":
            viols.append(_v("valid-setting-rejected", "local IWS=2^31-1 acknowledged with a stream window of 65535 (raised by 1, 1 byte received): %s / %s" % (
                o1.brief(), o.brief()), route="local-delta", id="4", got=o.exc_name or o1.exc_name))
        outcomes["local-delta-boundary"] = outcomes.get("local-delta-boundary", 0) + 1
    return n, n


def make_spec(key):
    raise NotImplementedError


def replay(rec):
    """Re-run the whole identifier of a stored case (cheap)."""
    sig = rec.get("sig", {})
    ident = sig.get("id")
    ids = QUICK_IDS if ident in ("unknown", "multi", None) else [int(ident)]
    r = shard({"ids": ids, "extras": True})
    return r["violations"]


def run(ctx):
    ids = QUICK_IDS if ctx.tier == "quick" else list(range(65536))
    n = 16 * 8 if ctx.tier == "thorough" else 11
    jobs = [{"ids": ids[i::n], "extras": i == 0} for i in range(n)]
    ctx.fanout("c12-grid-%s" % ctx.tier, jobs, "shard",
               domain="%d identifiers x %d values x 3 routes x 9 base states (+ HTTP2-Settings header route)" % (len(ids), len(VALUES)))
    ctx.notes["base_states"] = [b[0] for b in _bases()]
    ctx.fanouts[-1]["states"] = len(_bases())
