"""C11 - settings take effect exactly when acknowledged, one frame per ACK, in order.

Explicit-state BFS of one real connection (each role) in product with a FIFO
model of sent SETTINGS frames awaiting acknowledgement (the initial frame
included) and of the peer's current settings.  Actions: update_settings with
one key, two keys, a valid + an invalid value, an unknown identifier; a peer
SETTINGS ACK at any point (also when nothing is outstanding); received
SETTINGS frames with known / unknown / mixed identifiers.  After every
transition a battery of *probes* runs on clones of the real connection to make
the settings in force observable: a new peer stream receiving DATA of exactly
/ one past the local INITIAL_WINDOW_SIZE, a frame of exactly / one past the
local MAX_FRAME_SIZE, the N+1-th concurrent peer stream, a PUSH_PROMISE
(clients), a header list between two MAX_HEADER_LIST_SIZE values; and for the
peer's settings: the send window of a new stream, a DATA frame of exactly /
one past the peer's MAX_FRAME_SIZE, the N+1-th local stream, push_stream.

Oracle: ACK i applies exactly frame i's values; SettingsAcknowledged reports
exactly that frame's changes with correct old/new values; probes are accepted
or refused according to the values in force under that rule; each received
SETTINGS yields one RemoteSettingsChanged with correct old/new values and one
ACK frame, and is in force for the next action; an update_settings that raises
emits nothing, leaves local_settings unchanged and is not queued.
"""
import pickle

from .. import harness as H
from .. import wire
from ..canon import fingerprint
from ..explorer import Step

PROPERTY = "C11"
BOUNDS = {"quick": "depth 4 (local-settings alphabet and peer-settings alphabet explored separately), depth 6 for the repeated-values sub-alphabet; two start states (initial SETTINGS already acknowledged / still outstanding), both roles",
          "thorough": "depth 7 (or time budget, reported)"}
sb = H.stateless_block

HTS, EP, MCS, IWS, MFS, MHLS = 1, 2, 3, 4, 5, 6

LOCAL_MENU = {
    "iws100": {IWS: 100}, "iws5000": {IWS: 5000}, "mfs32768": {MFS: 32768}, "mfs16384": {MFS: 16384},
    "mcs1": {MCS: 1}, "mcs2": {MCS: 2}, "mhls200": {MHLS: 200},
    "iws100+mcs2": {IWS: 100, MCS: 2}, "mcs1+badmfs": {MCS: 1, MFS: 1}, "badep+iws5000": {EP: 2, IWS: 5000},
    "unknown": {0x99: 7},
    "hts8192+mhls200": {HTS: 8192, MHLS: 200}, "hts0": {HTS: 0},
}
REMOTE_MENU = {
    "iws10": [(IWS, 10)], "iws70000": [(IWS, 70000)], "mfs20000": [(MFS, 20000)], "mcs1": [(MCS, 1)], "mcs0": [(MCS, 0)],
    "hts0": [(HTS, 0)], "unknown": [(0x99, 5)], "iws10+mfs20000": [(IWS, 10), (MFS, 20000)], "empty": [],
    "iws10+iws20": [(IWS, 10), (IWS, 20)],
    "mfs16384": [(MFS, 16384)],          # back to the default after mfs20000: existing streams must follow both changes
}
ALPHABET = "update_settings: %s; received SETTINGS: %s; peer SETTINGS ACK; probes for IWS/MFS/MCS/MHLS/ENABLE_PUSH on both sides" % (
    sorted(LOCAL_MENU), sorted(REMOTE_MENU))


class S:
    pass


def _valid(d):
    for k, v in d.items():
        if k == EP and v not in (0, 1):
            return False
        if k == MFS and not (16384 <= v <= 2 ** 24 - 1):
            return False
        if k == IWS and v > 2 ** 31 - 1:
            return False
    return True


class Spec:
    def __init__(self, key):
        _, role, side, tier = key
        self.client = role == "client"
        self.side = side
        self.tier = tier
        self.name = "c11-%s-%s-%s" % (role, side, tier)
        self.max_depth = (6 if side == "localrep" else 4) if tier == "quick" else (8 if side == "localrep" else 7)
        self.lmenu = dict(LOCAL_MENU)
        self.rmenu = dict(REMOTE_MENU)
        if self.client:
            self.lmenu["ep0"] = {EP: 0}
            self.lmenu["ep1"] = {EP: 1}
        else:
            self.rmenu["ep0"] = [(EP, 0)]
            self.rmenu["ep1"] = [(EP, 1)]

    def _fresh(self, acked):
        st = S()
        st.h = H.Solo(self.client)
        init = {HTS: 4096, EP: int(self.client), IWS: 65535, MFS: 16384, 8: 0, MCS: 100, MHLS: 65536}
        st.cur = dict(init)              # local values in force
        st.sent = [dict(init)]           # frames awaiting ACK, oldest first
        st.remote = {HTS: 4096, EP: int(not self.client), IWS: 65535, MFS: 16384, 8: 0}
        st.dead = False
        st.multi = False                 # more than one SETTINGS frame has been outstanding at once
        st.diverged = False              # an ACK has arrived in a situation where per-key and per-frame acknowledgement differ
        st.existing = ()                 # streams that exist on the connection itself (probes normally open theirs on clones)
        if acked:
            st.h.rx([wire.settings([], ack=True)])
            st.sent = []
        return st

    def initial(self):
        out = [("initial-acked", self._fresh(True)), ("initial-outstanding", self._fresh(False))]
        if self.side == "localrep":
            # a stream that has received 1000 bytes the application has not acknowledged: a lowered INITIAL_WINDOW_SIZE may
            # take its window below zero when it is acknowledged - legal (RFC 7540 6.9.2), the ACK must simply be accepted
            st = self._fresh(True)
            h = st.h
            if self.client:
                ops = (h.api("send_headers", 1, H.ni(H.REQ_POST)), h.rx([wire.headers(1, sb(H.RESP))]), h.rx([wire.data(1, b"d" * 1000)]))
            else:
                ops = (h.rx([wire.headers(1, sb(H.REQ_POST))]), h.rx([wire.data(1, b"d" * 1000)]))
            for o in ops:
                assert o.kind == "ok", o.brief()
            st.existing = "busy-stream"
            out.append(("stream-with-1000-unacknowledged-bytes", st))
        if not self.client and self.side == "remote":
            # existing streams whose send windows a received INITIAL_WINDOW_SIZE must adjust at once: an open one, one
            # half-closed (remote) and a promised one (reserved) - nothing has been sent on any of them
            st = self._fresh(True)
            h = st.h
            for o in (h.rx([wire.headers(1, sb(H.REQ_POST))], ("headers", 1, False, False)),
                      h.rx([wire.headers(3, sb(H.REQ), es=True)], ("headers", 3, True, False)),
                      h.api("send_headers", 1, H.ni(H.RESP)),
                      h.api("push_stream", 1, 2, H.ni(H.REQ))):
                assert o.kind == "ok", o.brief()
            st.existing = (1, 2, 3)
            out.append(("three-streams", st))
            # an h2c-upgraded server: the client's settings arrived in the HTTP2-Settings header (and are repeated by its
            # first SETTINGS frame); stream 1 is the upgraded request
            import base64
            pairs = [(HTS, 0), (IWS, 30000), (MFS, 20000)]
            st = self._fresh(True)
            st.h = H.Solo(False, handshake=False)
            hdr = base64.urlsafe_b64encode(wire.settings(pairs).payload)
            st.h.conn.initiate_upgrade_connection(hdr)
            o = st.h.rx([wire.settings(pairs)])
            assert o.kind == "ok", o.brief()
            o = st.h.rx([wire.settings([], ack=True)])
            st.h.m.upgrade()
            for k, v in pairs:
                st.remote[k] = v
            st.existing = "upgraded"
            out.append(("upgraded-with-header-settings", st))
        return out

    def fingerprint(self, st):
        return fingerprint(st.h.conn, sorted(st.cur.items()), [sorted(d.items()) for d in st.sent],
                           sorted(st.remote.items()), st.dead, st.multi, st.diverged)

    def actions(self, st):
        if st.dead:
            return []
        if self.side == "local":
            return ["us:" + k for k in sorted(self.lmenu)] + ["rxack"] + ["rxs:mcs1"]
        if self.side == "localrep":
            # few settings, repeated values, deeper: several frames for the SAME setting in flight at once
            return ["us:iws100", "us:iws5000", "us:ep0" if self.client else "us:mcs1", "us:ep1" if self.client else "us:mcs2", "rxack"]
        return ["rxs:" + k for k in sorted(self.rmenu)] + ["us:iws100", "rxack"]

    # ------------------------------------------------------------------
    def apply(self, st, lab):
        viols = []
        h = st.h
        outstanding = len(st.sent)

        # The known per-key acknowledgement defect can only show when this very step is an ACK that arrives while a LATER
        # outstanding frame carries a key the oldest outstanding frame does not carry (the initial frame carries none as
        # far as pending values go): only then do "oldest pending value of every key" and "the oldest frame's values" differ.
        keys0 = set() if (st.sent and len(st.sent[0]) == 7) else set(st.sent[0] if st.sent else ())
        divergent = st.diverged or (lab == "rxack" and any(k not in keys0 for f in st.sent[1:] for k in f))
        st.diverged = divergent

        def bad(kind, msg, **sig):
            s = {"kind": kind, "multi_outstanding": outstanding >= 2, "perkey_divergent": divergent}
            s.update(sig)
            viols.append({"kind": kind, "sig": s, "msg": msg})

        out = lab.split(":")[0]
        if lab.startswith("us:"):
            d = self.lmenu[lab[3:]]
            before = self._local_view(st)
            o = h.api("update_settings", dict(d))
            if _valid(d):
                ok = (o.kind == "ok" and len(o.frames) == 1 and o.frames[0].type == wire.SETTINGS and not o.frames[0].f["ack"]
                      and [tuple(x) for x in o.frames[0].f["settings"]] == list(d.items()))
                if not ok:
                    bad("update-settings-wrong-frame", "update_settings(%r) -> %s" % (d, o.brief()))
                    st.dead = True
                    return Step("us-wrong", viols, prune=True)
                st.sent.append(dict(d))
                if len(st.sent) > 1:
                    st.multi = True
                out = "us-ok"
            else:
                if not (o.kind == "raise" and o.exc_name == "InvalidSettingsValueError"):
                    bad("invalid-update-accepted", "update_settings(%r) -> %s" % (d, o.brief()))
                    st.dead = True
                    return Step("us-invalid-accepted", viols, prune=True)
                if o.raw:
                    bad("failed-update-emitted", "update_settings(%r) raised but emitted %s" % (d, o.brief()))
                if self._local_view(st) != before:
                    bad("failed-update-changed-settings", "update_settings(%r) raised but local_settings changed" % (d,))
                out = "us-raise"
        elif lab == "rxack":
            if len(st.sent) == 1 and not st.diverged and MFS in st.sent[0]:
                # "from the moment the peer acknowledges": a frame that follows the ACK in the SAME chunk is already judged by
                # the acknowledged MAX_FRAME_SIZE (on copies of the connection; an unknown frame type carries the length)
                newf = st.sent[0][MFS]
                for L, okay in ((newf, True), (newf + 1, False)):
                    c2 = pickle.loads(pickle.dumps(h.conn))
                    o2 = H.recv(c2, wire.settings([], ack=True).serialize() + wire.raw(0x42, 0, 0, b"\0" * L).serialize())
                    if okay and o2.kind != "ok":
                        bad("local-mfs-probe", "a frame of exactly the acknowledged MAX_FRAME_SIZE=%d right behind the ACK (same chunk) rejected: %s" % (
                            newf, o2.brief()), probe="local-mfs-probe", expected="accept", same_chunk=True)
                    if not okay and not (o2.kind == "raise" and o2.exc_name == "FrameTooLargeError"):
                        bad("local-mfs-probe", "a frame of MAX_FRAME_SIZE+1=%d right behind the ACK (same chunk) not refused: %s" % (
                            newf + 1, o2.brief()), probe="local-mfs-probe", expected="reject", same_chunk=True)
            o = h.rx([wire.settings([], ack=True)])
            if o.kind != "ok":
                bad("settings-ack-rejected", "SETTINGS ACK -> %s" % o.brief())
                st.dead = True
                return Step("rxack-rejected", viols, prune=True)
            evs = [e for e in o.events if type(e).__name__ == "SettingsAcknowledged"]
            if len(evs) != 1 or len(o.events) != 1 or o.frames:
                bad("settings-ack-event-count", "SETTINGS ACK -> %s" % o.brief())
            frame = st.sent.pop(0) if st.sent else {}
            before = dict(st.cur)
            st.cur.update(frame)
            if evs:
                got = {int(k): (v.original_value, v.new_value) for k, v in evs[0].changed_settings.items()}
                problems = []
                for k, (a, b) in got.items():
                    if k not in frame:
                        problems.append("reports %d (%r->%r) which the acknowledged frame does not carry" % (k, a, b))
                    elif (a, b) != (before.get(k), frame[k]):
                        problems.append("reports %d as %r->%r, expected %r->%r" % (k, a, b, before.get(k), frame[k]))
                for k, v in frame.items():
                    if before.get(k) != v and k not in got:
                        problems.append("does not report %d (%r->%r)" % (k, before.get(k), v))
                if problems:
                    bad("settings-ack-wrong-changes",
                        "ACK of frame %r (outstanding %d): SettingsAcknowledged %s" % (frame, outstanding, "; ".join(problems)),
                        initial_outstanding=(outstanding > 0 and h is not None and lab == "rxack" and frame.get(MHLS) == 65536 and len(frame) == 7),
                        n_outstanding=min(outstanding, 3))
            if evs and not viols:
                # the event is the application's: a later acknowledgement (here: on a copy of the connection, for another
                # setting) must neither change it nor repeat its contents
                snap = {int(k): (v.original_value, v.new_value) for k, v in evs[0].changed_settings.items()}
                c2 = pickle.loads(pickle.dumps(h.conn))
                o2a = H.call(c2, "update_settings", {0x77: 5})
                o2 = H.recv(c2, wire.settings([], ack=True).serialize()) if o2a.kind == "ok" else None
                if o2 is not None and o2.kind == "ok" and not st.sent:
                    e2 = [e for e in o2.events if type(e).__name__ == "SettingsAcknowledged"]
                    now = {int(k): (v.original_value, v.new_value) for k, v in evs[0].changed_settings.items()}
                    if now != snap:
                        bad("settings-ack-event-mutated", "a later SettingsAcknowledged changed the earlier event from %r to %r" % (snap, now))
                    elif e2 and any(int(k) != 0x77 for k in e2[0].changed_settings):
                        bad("settings-ack-wrong-changes", "ACK of update_settings({0x77: 5}) reported %r" % (
                            {int(k): (v.original_value, v.new_value) for k, v in e2[0].changed_settings.items()},),
                            initial_outstanding=False, n_outstanding=1)
            out = "rxack-%d" % min(outstanding, 3)
        elif lab.startswith("rxs:"):
            pairs = self.rmenu[lab[4:]]
            o = h.rx([wire.settings(pairs)])
            if o.kind != "ok":
                bad("valid-settings-rejected", "SETTINGS %r -> %s" % (pairs, o.brief()))
                st.dead = True
                return Step("rxs-rejected", viols, prune=True)
            acks = [f for f in o.frames if f.type == wire.SETTINGS and f.f["ack"]]
            evs = [e for e in o.events if type(e).__name__ == "RemoteSettingsChanged"]
            if len(acks) != 1 or len(o.frames) != 1:
                bad("settings-ack-frame-count", "SETTINGS %r answered with %s" % (pairs, o.brief()))
            if len(evs) != 1 or len(o.events) != 1:
                bad("remote-settings-event-count", "SETTINGS %r -> events %s" % (pairs, [type(e).__name__ for e in o.events]))
            else:
                final = {}
                for k, v in pairs:
                    final[k] = v
                got = {int(k): (v.original_value, v.new_value) for k, v in evs[0].changed_settings.items()}
                exp = {k: (st.remote.get(k), v) for k, v in final.items()}
                if got != exp:
                    bad("remote-settings-event-content", "SETTINGS %r reported as %r, expected %r" % (pairs, got, exp))
            for k, v in pairs:
                st.remote[k] = v
            out = "rxs"
        # ---- views and probes
        lv = self._local_view(st)
        want = {k: v for k, v in st.cur.items()}
        if lv != want:
            bad("local-settings-view", "after %s local_settings shows %r, values in force %r" % (
                lab, {k: lv.get(k) for k in set(lv) | set(want) if lv.get(k) != want.get(k)},
                {k: want.get(k) for k in set(lv) | set(want) if lv.get(k) != want.get(k)}),
                n_outstanding=min(outstanding, 3))
        rv = {int(k): v for k, v in h.conn.remote_settings.items()}
        if rv != st.remote:
            bad("remote-settings-view", "after %s remote_settings shows %r, peer announced %r" % (lab, rv, st.remote))
        if not viols:
            self._probes(st, bad, lab)
        if viols:
            st.dead = True
        return Step(out, viols)

    def _local_view(self, st):
        out = {}
        for k in st.h.conn.local_settings:
            try:
                out[int(k)] = st.h.conn.local_settings[k]
            except KeyError:
                pass
        return out

    # ------------------------------------------------------------------
    def _probes(self, st, bad, lab):
        blob = pickle.dumps(st.h.conn)
        cur, rem = st.cur, st.remote
        client = self.client

        def psb(headers):
            # a peer that has acknowledged a HEADER_TABLE_SIZE below its encoder's current size starts its next block with
            # a dynamic table size update; every probe block is "the next block"
            return (b"\x20" if cur[HTS] < 4096 else b"") + sb(headers)

        if st.existing == "busy-stream":
            return          # (its point is that acknowledgements are accepted; nothing to probe on clones)
        if st.existing == "upgraded":
            import hpack
            c = pickle.loads(blob)
            w = c.local_flow_control_window(1)
            if w != min(65535, rem[IWS]):
                bad("remote-iws-probe", "after %s: send window of the upgraded stream 1 is %d, client's INITIAL_WINDOW_SIZE is %d" % (lab, w, rem[IWS]),
                    probe="upgraded-stream")
            o = H.call(c, "send_headers", 1, H.RESP + [(b"x-indexable", b"value")])
            dec = hpack.Decoder()
            dec.max_allowed_table_size = rem[HTS]
            try:
                dec.decode(b"".join(f.f["block"] for f in o.frames if f.type in (wire.HEADERS, wire.CONTINUATION)))
            except Exception as e:  # noqa: BLE001
                bad("remote-hts-probe", "after %s: response block on the upgraded stream cannot be decoded with the client's HEADER_TABLE_SIZE=%d: %r" % (
                    lab, rem[HTS], e), probe="upgraded-stream")
            n = min(rem[MFS], c.local_flow_control_window(1))
            if n > 16384:
                o = H.call(c, "send_data", 1, b"x" * n)
                if o.kind != "ok":
                    bad("remote-mfs-probe", "after %s: send_data of %d bytes (client MAX_FRAME_SIZE %d) on the upgraded stream refused: %s" % (
                        lab, n, rem[MFS], o.brief()), probe="upgraded-stream", expected="accept")
            return
        if st.existing:
            for sid in st.existing:
                try:
                    w = st.h.conn.local_flow_control_window(sid)
                except Exception as e:  # noqa: BLE001
                    bad("remote-iws-probe", "after %s: local_flow_control_window(%d) raised %r" % (lab, sid, e), probe="existing-stream")
                    continue
                if w != min(65535, rem[IWS]):
                    bad("remote-iws-probe", "after %s: send window of existing stream %d (nothing sent on it) is %d, peer's INITIAL_WINDOW_SIZE is %d" % (
                        lab, sid, w, rem[IWS]), probe="existing-stream")
            # a header block larger than the peer's MAX_FRAME_SIZE on a stream that was there before the setting changed
            c = pickle.loads(blob)
            o = H.call(c, "send_headers", 1, H.ni([(b"x-big", b"Z" * (rem[MFS] + 200))]), end_stream=True)
            if o.kind != "ok":
                bad("remote-mfs-probe", "after %s: large trailers on existing stream 1 refused: %s %s" % (lab, o.brief(), o.msg), probe="existing-stream",
                    expected="accept")
            else:
                over = [f for f in o.frames if f.type in (wire.HEADERS, wire.CONTINUATION) and len(f.f["block"]) > rem[MFS]]
                if over or len(o.frames) < 2:
                    bad("remote-mfs-probe", "after %s: trailers of %d bytes on existing stream 1 sent as %s, peer's MAX_FRAME_SIZE is %d" % (
                        lab, rem[MFS] + 200, o.brief(), rem[MFS]), probe="existing-stream", expected="split")
            return

        def fresh():
            return pickle.loads(blob)

        def open_peer_stream(c, sid):
            """make stream sid able to receive DATA from the peer"""
            if client:
                o = H.call(c, "send_headers", sid, H.ni(H.REQ_POST))
                if o.kind != "ok":
                    return o
                return H.recv(c, wire.headers(sid, psb(H.RESP)).serialize())
            return H.recv(c, wire.headers(sid, psb(H.REQ_POST)).serialize())

        def pb(kind, msg, **sig):
            bad(kind, "after %s: %s" % (lab, msg), probe=kind, **sig)

        # the connection-level receive window is not a setting: no INITIAL_WINDOW_SIZE change, acknowledged or not, moves it
        c = fresh()
        if c.inbound_flow_control_window != 65535:
            pb("local-iws-probe", "connection receive window is %d although nothing was received and no increment was made "
               "(INITIAL_WINDOW_SIZE in force %d)" % (c.inbound_flow_control_window, cur[IWS]), expected="65535")
        # P-MFS: local MAX_FRAME_SIZE
        mfs = cur[MFS]
        c = fresh()
        o = H.recv(c, wire.raw(0x42, 0, 0, b"\0" * mfs).serialize())
        if o.kind != "ok":
            pb("local-mfs-probe", "frame of exactly MAX_FRAME_SIZE=%d rejected: %s" % (mfs, o.brief()), expected="accept")
        c = fresh()
        o = H.recv(c, wire.raw(0x42, 0, 0, b"\0" * (mfs + 1)).serialize())
        if not (o.kind == "raise" and o.is_proto and int(o.code) == wire.FRAME_SIZE_ERROR):
            pb("local-mfs-probe", "frame of MAX_FRAME_SIZE+1=%d not refused with FRAME_SIZE_ERROR: %s" % (mfs + 1, o.brief()), expected="reject")
        # P-HTS: the dynamic table size the peer's encoder may select is bounded by the acknowledged HEADER_TABLE_SIZE
        if (not client and cur[MCS] >= 1) or (client and rem.get(MCS, 10 ** 9) >= 1):
            import hpack
            for extra, expect in ((0, "accept"), (1, "reject")):
                enc = hpack.Encoder()
                enc.header_table_size = cur[HTS] + extra          # the block starts with a dynamic table size update
                c = fresh()
                if client:
                    H.call(c, "send_headers", 1, H.ni(H.REQ_POST))
                    blk = enc.encode(H.ni(H.RESP))
                else:
                    blk = enc.encode(H.ni(H.REQ_POST))
                if cur[HTS] + extra == 4096 and not blk.startswith(b"\x3f"):
                    blk = b"\x3f\xe1\x1f" + blk                   # 4096 explicitly (the encoder omits an update to its default)
                o = H.recv(c, wire.headers(1, blk).serialize())
                if expect == "accept" and o.kind != "ok":
                    pb("local-hts-probe", "table size update to HEADER_TABLE_SIZE=%d rejected: %s" % (cur[HTS], o.brief()), expected="accept")
                if expect == "reject" and o.kind == "ok":
                    pb("local-hts-probe", "table size update to HEADER_TABLE_SIZE+1=%d accepted" % (cur[HTS] + 1), expected="reject")
        # P-IWS: a new stream's receive window (only when it is below conn window and frame limit)
        iws = cur[IWS]
        can_open = (cur[MCS] >= 1) if not client else (rem.get(MCS, 10 ** 9) >= 1)
        if iws < min(65535, mfs) and can_open:
            for extra, expect in ((0, "accept"), (1, "reject")):
                c = fresh()
                o = open_peer_stream(c, 1)
                if o.kind != "ok":
                    pb("local-iws-probe", "cannot open probe stream: %s" % o.brief(), expected="open")
                    break
                o = H.recv(c, wire.data(1, b"x" * (iws + extra)).serialize())
                if expect == "accept" and o.kind != "ok":
                    pb("local-iws-probe", "DATA of exactly INITIAL_WINDOW_SIZE=%d on a new stream rejected: %s" % (iws, o.brief()), expected="accept")
                if expect == "reject" and not (o.kind == "raise" and o.exc_name == "FlowControlError"):
                    pb("local-iws-probe", "DATA of INITIAL_WINDOW_SIZE+1=%d on a new stream not refused: %s" % (iws + 1, o.brief()), expected="reject")
        # P-MCS: concurrent peer streams (server role)
        if not client:
            n = cur[MCS]
            if n <= 2:
                c = fresh()
                okay = True
                for i in range(n):
                    o = H.recv(c, wire.headers(2 * i + 1, psb(H.REQ_POST)).serialize())
                    if o.kind != "ok" or any(f.type == wire.RST_STREAM for f in o.frames):
                        pb("local-mcs-probe", "stream %d of %d allowed refused: %s" % (i + 1, n, o.brief()), expected="accept")
                        okay = False
                        break
                if okay:
                    o = H.recv(c, wire.headers(2 * n + 1, psb(H.REQ_POST)).serialize())
                    if o.kind == "ok" and not any(f.type == wire.RST_STREAM for f in o.frames):
                        pb("local-mcs-probe", "stream %d accepted although MAX_CONCURRENT_STREAMS=%d is in force" % (n + 1, n), expected="reject")
            else:
                c = fresh()
                for i in range(3):
                    o = H.recv(c, wire.headers(2 * i + 1, psb(H.REQ_POST)).serialize())
                    if o.kind != "ok" or any(f.type == wire.RST_STREAM for f in o.frames):
                        pb("local-mcs-probe", "stream %d refused although MAX_CONCURRENT_STREAMS=%d is in force: %s" % (i + 1, n, o.brief()), expected="accept")
                        break
        # P-MHLS: header list between 200 and 65536
        if (not client and cur[MCS] >= 1) or (client and rem.get(MCS, 10 ** 9) >= 1):
            big = [(b"x-fill", b"v" * 300)]
            c = fresh()
            if client:
                o = H.call(c, "send_headers", 1, H.ni(H.REQ_POST))
                o = H.recv(c, wire.headers(1, psb(H.RESP + big)).serialize())
            else:
                o = H.recv(c, wire.headers(1, psb(H.REQ_POST + big)).serialize())
            if cur[MHLS] == 200:
                if not (o.kind == "raise" and o.is_proto and int(o.code) == wire.ENHANCE_YOUR_CALM):
                    pb("local-mhls-probe", "header list of ~360 bytes accepted although MAX_HEADER_LIST_SIZE=200 is in force: %s" % o.brief(), expected="reject")
            elif o.kind != "ok":
                pb("local-mhls-probe", "header list of ~360 bytes rejected although MAX_HEADER_LIST_SIZE=%d is in force: %s" % (cur[MHLS], o.brief()), expected="accept")
        # P-EP: push (client role)
        if client and rem.get(MCS, 10 ** 9) >= 1:
            c = fresh()
            o = H.call(c, "send_headers", 1, H.ni(H.REQ_POST))
            o = H.recv(c, wire.push_promise(1, 2, psb(H.REQ)).serialize())
            if cur[EP] == 1 and o.kind != "ok":
                pb("local-push-probe", "PUSH_PROMISE rejected although ENABLE_PUSH=1 is in force: %s" % o.brief(), expected="accept")
            if cur[EP] == 0 and not (o.kind == "raise" and o.is_proto):
                pb("local-push-probe", "PUSH_PROMISE accepted although ENABLE_PUSH=0 is in force: %s" % o.brief(), expected="reject")
            if cur[EP] == 0:
                # the setting binds whatever has become of the parent stream: reset by us, and reset and already forgotten
                for variant in ("parent-reset", "parent-reset-and-forgotten"):
                    c = fresh()
                    H.call(c, "send_headers", 1, H.ni(H.REQ_POST))
                    H.call(c, "reset_stream", 1)
                    if variant.endswith("forgotten"):
                        c.open_outbound_streams          # reading the counter sweeps closed streams out of the table
                    o = H.recv(c, wire.push_promise(1, 2, psb(H.REQ)).serialize())
                    if not (o.kind == "raise" and o.is_proto):
                        pb("local-push-probe", "PUSH_PROMISE on a %s stream accepted / refused as a stream although ENABLE_PUSH=0 is in force: %s" % (
                            variant, o.brief()), expected="reject", variant=variant)
        # ---- the peer's settings are in force for the very next action
        rmfs = rem[MFS]
        riws = rem[IWS]
        rmcs = rem.get(MCS, 10 ** 9)
        c = fresh()
        sid = 1
        if client:
            o = H.call(c, "send_headers", sid, H.ni(H.REQ_POST))
            if rmcs == 0:
                if not (o.kind == "raise" and o.exc_name == "TooManyStreamsError"):
                    pb("remote-mcs-probe", "opened a stream although the peer's MAX_CONCURRENT_STREAMS is 0: %s" % o.brief(), expected="reject")
                return
            if o.kind != "ok":
                pb("remote-mcs-probe", "cannot open a stream (peer MAX_CONCURRENT_STREAMS=%d): %s" % (rmcs, o.brief()), expected="accept")
                return
            if rmcs == 1:
                o2 = H.call(c, "send_headers", 3, H.ni(H.REQ_POST))
                if not (o2.kind == "raise" and o2.exc_name == "TooManyStreamsError"):
                    pb("remote-mcs-probe", "second stream opened although the peer's MAX_CONCURRENT_STREAMS is 1: %s" % o2.brief(), expected="reject")
        else:
            if cur[MCS] < 1:
                return
            o = H.recv(c, wire.headers(sid, psb(H.REQ_POST)).serialize())
            if o.kind != "ok":
                return
            o = H.call(c, "send_headers", sid, H.ni(H.RESP))
            if o.kind != "ok":
                pb("remote-probe-setup", "cannot respond on probe stream: %s" % o.brief())
                return
            # push allowed iff the peer's ENABLE_PUSH
            c2 = pickle.loads(pickle.dumps(c))
            o2 = H.call(c2, "push_stream", 1, 2, H.ni(H.REQ))
            if rem[EP] == 1 and o2.kind != "ok":
                pb("remote-push-probe", "push_stream refused although the peer's ENABLE_PUSH is 1: %s" % o2.brief(), expected="accept")
            if rem[EP] == 0 and not (o2.kind == "raise" and o2.is_proto):
                pb("remote-push-probe", "push_stream succeeded although the peer's ENABLE_PUSH is 0: %s" % o2.brief(), expected="reject")
        try:
            w = c.local_flow_control_window(sid)
        except Exception as e:  # noqa: BLE001
            pb("remote-iws-probe", "local_flow_control_window raised %r" % e)
            return
        if w != min(65535, riws):
            pb("remote-iws-probe", "send window of a new stream is %d, peer's INITIAL_WINDOW_SIZE is %d" % (w, riws))
        if w >= 1 and riws >= rmfs + 1 and rmfs + 1 <= 65535:
            c3 = pickle.loads(pickle.dumps(c))
            o3 = H.call(c3, "send_data", sid, b"x" * (rmfs + 1))
            if not (o3.kind == "raise" and o3.exc_name == "FrameTooLargeError"):
                pb("remote-mfs-probe", "send_data of peer MAX_FRAME_SIZE+1=%d not refused: %s" % (rmfs + 1, o3.brief()), expected="reject")
            o3 = H.call(c, "send_data", sid, b"x" * rmfs)
            if o3.kind != "ok":
                pb("remote-mfs-probe", "send_data of exactly peer MAX_FRAME_SIZE=%d refused: %s" % (rmfs, o3.brief()), expected="accept")


def make_spec(key):
    return Spec(key)


def run(ctx):
    for role in ("server", "client"):
        for side in ("local", "localrep", "remote"):
            ctx.explore(("c11", role, side, ctx.tier), time_budget=None if ctx.tier == "quick" else 240)
