"""C05 - automatic window management never deadlocks and never over-credits.

Two layers of explicit-state exploration.

 (a) Component closure: h2.windows.WindowManager driven directly.  For each
     maximum M in a range, BFS over window_consumed(k) (1 <= k <= current) and
     process_bytes(k) (0 <= k <= outstanding, plus one over-acknowledgement)
     TO CLOSURE - the state (current, max, pending, outstanding) is finite.
     For large M (1023..1025, 4095..4097, 65535, 2^31-1) the same with a
     relative size menu to a depth bound.
 (b) API level: BFS of one real connection (each role), <= 2 streams, local
     INITIAL_WINDOW_SIZE in {1, 4, 16, 65535} including changes through
     update_settings + ACK; peer DATA on open streams, on streams reset by
     either side (acknowledged by the library on the user's behalf), with
     END_STREAM; the application acknowledges what DataReceived reported, in
     one piece or in two.

Invariants (increments are read from the wire): cumulative increments emitted
<= cumulative bytes acknowledged, per window; no increment lifts an advertised
window above its maximum or 2^31-1; whenever nothing received is
unacknowledged, the advertised connection window and that of every open
stream is > 0 if its maximum is > 0.
"""
import copy

from .. import harness as H
from .. import wire
from ..canon import fingerprint
from ..explorer import Step

PROPERTY = "C05"
ALPHABET = ("(a) WindowManager: window_consumed(k), process_bytes(k) for all k in range; (b) peer DATA {1, half, fill} +-END_STREAM on open / reset streams, "
            "acknowledge_received_data {all, half} per stream, update_settings IWS {1,4,16,65535} + ACK, reset_stream, peer RST_STREAM, open stream")
BOUNDS = {"quick": "(a) closure for every M in 0..40 and depth 6 for 8 large maxima; (b) depth 6",
          "thorough": "(a) closure for every M in 0..128, depth 8 for large maxima; (b) depth 8 (or time budget, reported)"}
MAXW = 2 ** 31 - 1
sb = H.stateless_block


# ------------------------------------------------------------------ (a)

def _wm_violation(kind, msg, M, **sig):
    s = {"kind": kind, "layer": "WindowManager"}
    s.update(sig)
    return {"kind": kind, "sig": s, "msg": "[max=%d] %s" % (M, msg), "case": {"layer": "wm", "M": M}}


WM_STATE_CAP = 400000


def wm_explore(M, sizes=None, depth=None):
    """BFS over the real WindowManager for maximum M.  State = (manager,
    outstanding, credit, overacked).  Returns (states, transitions, viols, closed, trace sample)."""
    from h2.windows import WindowManager
    from h2.exceptions import FlowControlError
    start = (WindowManager(M), 0, 0, False)

    def key(s):
        wm, out, credit, ov = s
        return (wm.current_window_size, wm.max_window_size, wm._bytes_processed, out, credit, ov)

    seen = {key(start)}
    frontier = [(start, ())]
    trans = 0
    viols = {}
    d = 0
    sample = None
    while frontier and (depth is None or d < depth):
        nxt = []
        for (wm, out, credit, ov), tr in frontier:
            acts = []
            cur = wm.current_window_size
            if sizes is None:
                acts += [("c", k) for k in range(1, cur + 1)]
                acts += [("p", k) for k in range(0, out + 1)]
                if not ov:
                    acts.append(("p", out + 1))
            else:
                ks = sorted(set(k for k in sizes if k >= 1))
                acts += [("c", k) for k in ks if k <= cur] + ([("c", cur)] if cur >= 1 else [])
                acts += [("p", k) for k in ks if k <= out] + ([("p", out)] if out >= 1 else []) + [("p", 0)]
                if not ov:
                    acts.append(("p", out + 1))
            for kind, k in acts:
                w2 = copy.copy(wm)
                trans += 1
                out2, credit2, ov2 = out, credit, ov
                tr2 = tr + ((kind, k),)
                if kind == "c":
                    try:
                        w2.window_consumed(k)
                    except FlowControlError:
                        v = _wm_violation("fitting-consume-refused", "window_consumed(%d) with window %d refused after %r" % (k, cur, tr), M)
                        viols[repr(v["sig"])] = v
                        continue
                    out2 += k
                else:
                    inc = w2.process_bytes(k) or 0
                    if k > out:
                        ov2 = True
                    out2 = max(0, out - k)
                    credit2 = credit + k - inc
                    if inc < 0:
                        v = _wm_violation("negative-increment", "process_bytes(%d) returned %d" % (k, inc), M)
                        viols[repr(v["sig"])] = v
                    if credit2 < 0:
                        v = _wm_violation("over-credit", "after %r: increments exceed acknowledged bytes by %d" % (tr2, -credit2), M)
                        viols[repr(v["sig"])] = v
                        continue
                    if w2.current_window_size > max(w2.max_window_size, 0) or w2.current_window_size > MAXW:
                        v = _wm_violation("window-above-maximum", "after %r: window %d above maximum %d" % (
                            tr2, w2.current_window_size, w2.max_window_size), M)
                        viols[repr(v["sig"])] = v
                        continue
                    if w2.current_window_size != cur + inc:
                        v = _wm_violation("window-not-increment", "process_bytes(%d) returned %d but window went %d -> %d" % (
                            k, inc, cur, w2.current_window_size), M)
                        viols[repr(v["sig"])] = v
                if out2 == 0 and not ov2 and M > 0 and w2.current_window_size <= 0:
                    v = _wm_violation("deadlock", "after %r everything received is acknowledged but the advertised window is %d" % (
                        tr2, w2.current_window_size), M)
                    viols[repr(v["sig"])] = v
                    continue
                s2 = (w2, out2, credit2, ov2)
                kk = key(s2)
                if kk not in seen:
                    seen.add(kk)
                    nxt.append((s2, tr2))
                    if sample is None and len(tr2) >= 4:
                        sample = tr2
        frontier = nxt
        d += 1
        if viols or len(seen) > WM_STATE_CAP:
            # a counterexample is in hand (BFS: a shortest one), or the space is not closing (a manager whose
            # counters grow without bound is itself suspicious, but is reported only as "not closed")
            break
    return len(seen), trans, list(viols.values()), not frontier, sample, d


def job_wm(job):
    out = {"evaluations": 0, "outcomes": {}, "nontrivial": 0, "violations": [], "samples": [], "states": 0}
    for M in job["Ms"]:
        sizes = None
        depth = None
        if M > job["closure_max"]:
            sizes = [1, M // 4, M // 4 + 1, M // 2 - 1, M // 2, M, 1024, 1025]
            depth = job["depth"]
        st, tr, vs, closed, sample, d = wm_explore(M, sizes, depth)
        out["states"] += st
        out["evaluations"] += tr
        out["nontrivial"] += tr
        k = "wm-closure" if closed else "wm-depth-%d" % d
        out["outcomes"][k] = out["outcomes"].get(k, 0) + 1
        out["violations"].extend(vs)
        if sample and len(out["samples"]) < 1:
            out["samples"].append({"layer": "WindowManager", "max": M, "trace": [list(x) for x in sample]})
    return out


# ------------------------------------------------------------------ (b)

IWS_VALUES = [0, 1, 4, 16, 65535]
PUMP_FRAMES = 600


class S:
    pass


class Spec:
    def __init__(self, key):
        role, tier = key[1], key[2]
        self.promised = len(key) > 3 and key[3] == "promised"     # variant: starts with a request open and a stream promised on it
        self.zero = len(key) > 3 and key[3] == "zero"             # variant: starts with INITIAL_WINDOW_SIZE 0 acknowledged
        self.client = role == "client"
        self.tier = tier
        self.name = "c05-api-%s%s-%s" % (role, "-promised" if self.promised else "-iws0" if self.zero else "", tier)
        self.max_depth = (5 if (self.promised or self.zero) else 6) if tier == "quick" else (7 if (self.promised or self.zero) else 8)
        self.max_streams = 1 if (self.promised or self.zero) else 2

    def initial(self):
        st = S()
        st.h = H.Solo(self.client)
        st.h.rx([wire.settings([], ack=True)])
        st.h.api("update_settings", {wire.S_MAX_FRAME_SIZE: 2 ** 24 - 1})
        st.h.rx([wire.settings([], ack=True)])
        st.Ac = 65535
        st.Mc = 65535
        st.acked_iws = 65535
        st.pending = []
        st.As = {}          # open receiving streams -> advertised window
        st.out = {}         # sid -> bytes reported by DataReceived, not yet acknowledged
        st.credit = {0: 0}  # window -> acknowledged bytes - increments emitted (must stay >= 0)
        st.auto = 0         # bytes the library must acknowledge itself (DATA on reset streams), not yet credited back
        st.reset = set()
        st.ended = set()    # streams the peer ended (closed for receiving) that still have outstanding bytes
        st.nstreams = 0
        st.dead = False
        st.resv = set()     # client role: promised streams whose response HEADERS have not arrived yet
        st.npush = 0
        st.badack = False
        st.badincr = False
        st.stuck = {}       # sid -> kind of the action after which the stream first had nothing of its own outstanding and a window <= 0
        if self.zero:
            for lab in ("iws:0", "rxack"):
                step = self.apply(st, lab)
                assert not step.violations and not st.dead, lab
            return [("iws0-acknowledged", st)]
        if not self.promised:
            return [("start", st)]
        for lab in ("open", "rxpush:1"):
            step = self.apply(st, lab)
            assert not step.violations and not st.dead, lab
        return [("open+promised", st)]

    def fingerprint(self, st):
        return fingerprint(st.h.conn, st.Ac, st.acked_iws, tuple(st.pending), tuple(sorted(st.As.items())),
                           tuple(sorted(st.out.items())), tuple(sorted(st.credit.items())), st.auto,
                           tuple(sorted(st.reset)), tuple(sorted(st.ended)), st.nstreams, st.dead,
                           tuple(sorted(st.stuck.items())), tuple(sorted(st.resv)), st.npush, st.badack, st.badincr)

    def actions(self, st):
        if st.dead:
            return []
        acts = []
        if st.nstreams < self.max_streams:
            acts.append("open")
        if self.client and st.npush < 1 and any(s % 2 and s not in st.ended for s in st.As):
            acts.append("rxpush:%d" % min(s for s in st.As if s % 2 and s not in st.ended))
        for sid in sorted(st.resv):
            acts.append("rxresp:%d" % sid)
        for sid in sorted(st.As):
            if sid in st.ended or sid in st.resv:
                continue
            for L in ("1", "half", "fill"):
                acts.append("data:%d:%s" % (sid, L))
            acts.append("data:%d:half:pad" % sid)
            if not st.out.get(sid):
                acts.append("pump:%d" % sid)
            acts.append("data:%d:fill:es" % sid)
            acts.append("reset:%d" % sid)
            acts.append("rxrst:%d" % sid)
        for sid in sorted(st.out):
            if st.out[sid] > 0:
                acts.append("ack:%d:all" % sid)
                if st.out[sid] > 1:
                    acts.append("ack:%d:half" % sid)
                if st.out[sid] > 2000:
                    acts.append("ack:%d:2000" % sid)      # more than the 1024-byte threshold, far less than half a window
        if not st.badincr:
            # a manual increment that would take a window past 2^31-1 is refused - and leaves the window manager as it was
            acts.append("incrbad:0")
            if st.As:
                acts.append("incrbad:%d" % min(st.As))
        if any(v > 0 for v in st.out.values()) and not st.badack:
            # everything outstanding acknowledged on a stream id that was never used: refused - and nothing is credited
            acts.append("ackbad:101")
        for sid in sorted(st.reset):
            for L in ("1", "fill"):
                acts.append("rdata:%d:%s" % (sid, L))
            acts.append("rdata:%d:half:pad" % sid)      # padding counts: 1 + 5 bytes of every such frame are not payload
            acts.append("rpump:%d" % sid)
        for v in IWS_VALUES:
            if v != (st.pending[-1] if st.pending else st.acked_iws):
                acts.append("iws:%d" % v)
        if st.pending:
            acts.append("rxack")
        return acts

    def _absorb(self, st, o, bad):
        for f in o.frames:
            if f.type != wire.WINDOW_UPDATE:
                continue
            inc = f.f["inc"]
            if f.sid == 0:
                st.Ac += inc
                st.credit[0] -= inc
                if st.Ac > st.Mc:
                    bad("window-above-maximum", "connection window advertised as %d, maximum %d" % (st.Ac, st.Mc), window="connection")
            elif f.sid in st.As:
                st.As[f.sid] += inc
                st.credit[f.sid] = st.credit.get(f.sid, 0) - inc
                if st.As[f.sid] > max(st.acked_iws, 0) or st.As[f.sid] > MAXW:
                    bad("window-above-maximum", "stream %d window advertised as %d, maximum %d" % (f.sid, st.As[f.sid], st.acked_iws),
                        window="stream")
            else:
                bad("window-update-on-dead-stream", "WINDOW_UPDATE(%d) on stream %d which is not open for receiving" % (inc, f.sid))
        for w, c in st.credit.items():
            if c < 0:
                bad("over-credit", "window %s: increments exceed acknowledged bytes by %d" % ("connection" if w == 0 else "stream %d" % w, -c),
                    window="connection" if w == 0 else "stream")

    def apply(self, st, lab):
        viols = []
        h = st.h

        def bad(kind, msg, **sig):
            s = {"kind": kind, "layer": "api"}
            s.update(sig)
            viols.append({"kind": kind, "sig": s, "msg": msg})

        parts = lab.split(":")
        out = parts[0]
        if lab == "open":
            st.nstreams += 1
            sid = 2 * st.nstreams - 1
            if self.client:
                o = h.api("send_headers", sid, H.ni(H.REQ_POST))
                if o.kind == "ok":
                    o = h.rx([wire.headers(sid, sb(H.RESP))], ("headers", sid, False, False))
            else:
                o = h.rx([wire.headers(sid, sb(H.REQ_POST))], ("headers", sid, False, False))
            if o.kind != "ok":
                bad("open-failed", "opening stream %d: %s" % (sid, o.brief()))
                st.dead = True
                return Step("open-failed", viols, prune=True)
            st.As[sid] = st.acked_iws
            st.out[sid] = 0
            st.credit[sid] = 0
        elif parts[0] in ("data", "rdata"):
            sid = int(parts[1])
            on_reset = parts[0] == "rdata"
            A = st.Ac if on_reset else min(st.Ac, st.As[sid])
            L = {"1": 1, "half": max(1, A // 2), "fill": A}[parts[2]]
            es = "es" in parts[3:]
            pad = 5 if "pad" in parts[3:] else None
            over = 0 if pad is None else pad + 1
            if L > A or L < 1 or L > 2 ** 24 - 1 or L < over:
                return Step("data-not-possible", viols, prune=True)
            o = h.rx([wire.data(sid, b"x" * (L - over), es=es, pad=pad)], ("data", sid, es))
            if o.kind != "ok":
                bad("fitting-data-rejected", "DATA %d bytes on stream %d (advertised conn %d / stream %s) -> %s %s" % (
                    L, sid, st.Ac, st.As.get(sid), o.brief(), o.msg), on_reset_stream=on_reset)
                st.dead = True
                return Step("data-rejected", viols, prune=True)
            st.Ac -= L
            if on_reset:
                # acknowledged by the library on the user's behalf
                st.credit[0] += L
                if not any(f.type == wire.RST_STREAM and f.sid == sid for f in o.frames):
                    pass
                out = "data-on-reset-stream"
            else:
                st.As[sid] -= L
                evs = [e for e in o.events if type(e).__name__ == "DataReceived"]
                if len(evs) != 1 or evs[0].flow_controlled_length != L:
                    bad("data-event", "DATA %d reported as %s" % (L, [H.event_brief(e) for e in o.events]))
                st.out[sid] += L
                if es:
                    # the peer can send no more on it; the library may still credit it (harmless)
                    st.ended.add(sid)
                out = "data" + ("-es" if es else "")
            self._absorb(st, o, bad)
        elif parts[0] == "rxpush":
            parent = int(parts[1])
            st.npush += 1
            sid = 2 * st.npush
            o = h.rx([wire.push_promise(parent, sid, sb(H.REQ))], ("push", parent, sid))
            if o.kind != "ok" or o.frames:
                bad("open-failed", "PUSH_PROMISE(%d -> %d): %s" % (parent, sid, o.brief()))
                st.dead = True
                return Step("open-failed", viols, prune=True)
            st.As[sid] = st.acked_iws
            st.out[sid] = 0
            st.credit[sid] = 0
            st.resv.add(sid)
        elif parts[0] == "rxresp":
            sid = int(parts[1])
            o = h.rx([wire.headers(sid, sb(H.RESP))], ("headers", sid, False, False))
            if o.kind != "ok" or o.frames:
                bad("open-failed", "response HEADERS on promised stream %d: %s" % (sid, o.brief()))
                st.dead = True
                return Step("open-failed", viols, prune=True)
            st.resv.discard(sid)
        elif parts[0] in ("pump", "rpump"):
            # a long run of small, heavily padded frames (1 payload byte, 255 of padding): a leak of a few bytes per
            # frame exhausts a window only after hundreds of frames.  On an open stream the application acknowledges
            # each frame's flow_controlled_length at once; on a reset stream the library does so itself.
            sid = int(parts[1])
            on_reset = parts[0] == "rpump"
            L = 257
            sent = 0
            for _ in range(PUMP_FRAMES):
                A = st.Ac if on_reset else min(st.Ac, st.As[sid])
                if L > A:
                    break
                o = h.rx([wire.data(sid, b"x", pad=255)], ("data", sid, False))
                if o.kind != "ok":
                    bad("fitting-data-rejected", "pumped DATA 257 bytes on stream %d (advertised conn %d / stream %s) -> %s %s" % (
                        sid, st.Ac, st.As.get(sid), o.brief(), o.msg), on_reset_stream=on_reset)
                    st.dead = True
                    return Step("data-rejected", viols, prune=True)
                sent += 1
                st.Ac -= L
                if on_reset:
                    st.credit[0] += L
                    self._absorb(st, o, bad)
                    continue
                st.As[sid] -= L
                self._absorb(st, o, bad)
                o = h.api("acknowledge_received_data", L, sid)
                if o.kind != "ok":
                    bad("ack-refused", "acknowledge_received_data(%d, %d) -> %s" % (L, sid, o.brief()))
                    st.dead = True
                    return Step("ack-refused", viols, prune=True)
                st.credit[0] += L
                st.credit[sid] = st.credit.get(sid, 0) + L
                self._absorb(st, o, bad)
                if viols:
                    break
            if not sent:
                return Step("data-not-possible", viols, prune=True)
            out = parts[0]
        elif parts[0] == "incrbad":
            st.badincr = True
            sid = int(parts[1])
            cur = st.As[sid] if sid else st.Ac
            inc = 2 ** 31 - cur          # one more than the window has room for
            if not (1 <= inc <= 2 ** 31 - 1):
                return Step("incrbad-not-expressible", viols, prune=True)
            o = h.api("increment_flow_control_window", inc, stream_id=(sid or None))
            if o.kind == "ok" or o.raw:
                bad("overflowing-increment-accepted", "increment_flow_control_window(%d, %s) on a window of %d -> %s" % (inc, sid or None, cur, o.brief()))
                st.dead = True
                return Step("incrbad-accepted", viols, prune=True)
        elif parts[0] == "ackbad":
            st.badack = True
            n = sum(v for v in st.out.values() if v > 0)
            o = h.api("acknowledge_received_data", n, int(parts[1]))
            if o.kind == "ok" or o.raw:
                bad("ack-on-unused-stream-had-an-effect", "acknowledge_received_data(%d, %s) on a never-used stream -> %s" % (n, parts[1], o.brief()))
                st.dead = True
                return Step("ackbad-accepted", viols, prune=True)
        elif parts[0] == "ack":
            sid = int(parts[1])
            n = st.out[sid] if parts[2] == "all" else (2000 if parts[2] == "2000" else st.out[sid] // 2)
            o = h.api("acknowledge_received_data", n, sid)
            if o.kind != "ok":
                bad("ack-refused", "acknowledge_received_data(%d, %d) -> %s" % (n, sid, o.brief()))
                st.dead = True
                return Step("ack-refused", viols, prune=True)
            st.out[sid] -= n
            st.credit[0] += n
            if sid in st.As:
                st.credit[sid] = st.credit.get(sid, 0) + n
            self._absorb(st, o, bad)
            if st.out[sid] == 0 and sid not in st.As:
                del st.out[sid]
        elif parts[0] in ("reset", "rxrst"):
            sid = int(parts[1])
            if parts[0] == "reset":
                o = h.api("reset_stream", sid)
            else:
                o = h.rx([wire.rst_stream(sid, 8)], ("rst", sid))
            if o.kind != "ok":
                bad("reset-failed", "%s -> %s" % (lab, o.brief()))
            del st.As[sid]
            st.credit.pop(sid, None)
            st.ended.discard(sid)
            st.resv.discard(sid)
            st.reset.add(sid)
            self._absorb(st, o, bad)
        elif parts[0] == "iws":
            v = int(parts[1])
            o = h.api("update_settings", {wire.S_INITIAL_WINDOW_SIZE: v})
            if o.kind != "ok":
                bad("update-settings-refused", "update_settings(IWS=%d) -> %s" % (v, o.brief()))
            else:
                st.pending.append(v)
        elif lab == "rxack":
            v = st.pending.pop(0)
            delta = v - st.acked_iws
            o = h.rx([wire.settings([], ack=True)])
            if o.kind != "ok":
                bad("settings-ack-rejected", "SETTINGS ACK -> %s" % o.brief())
                st.dead = True
                return Step("rxack-rejected", viols, prune=True)
            for s in st.As:
                st.As[s] += delta
            st.acked_iws = v
            self._absorb(st, o, bad)
            out = "rxack"
        else:
            raise ValueError(lab)
        # ---- bookkeeping for signatures: since when has each stream been shut with nothing of its own outstanding
        for sid, a in st.As.items():
            if st.acked_iws > 0 and a <= 0 and sid not in st.ended and sid not in st.resv and not st.out.get(sid):
                st.stuck.setdefault(sid, parts[0])
            else:
                st.stuck.pop(sid, None)
        for sid in [x for x in st.stuck if x not in st.As]:
            del st.stuck[sid]
        # ---- no deadlock: when nothing is outstanding every positive-maximum window is open
        if not any(st.out.values()):
            if st.Ac <= 0:
                bad("deadlock", "after %s nothing is unacknowledged but the advertised connection window is %d" % (lab, st.Ac),
                    window="connection", after=parts[0])
            for sid, a in st.As.items():
                if st.acked_iws > 0 and a <= 0 and sid not in st.ended and sid not in st.resv:
                    bad("deadlock", "after %s nothing is unacknowledged but stream %d advertises %d (maximum %d)" % (
                        lab, sid, a, st.acked_iws), window="stream", after=parts[0], stuck_since=st.stuck.get(sid, parts[0]))
        if viols:
            st.dead = True
        return Step(out, viols)


def make_spec(key):
    return Spec(key)


def replay(rec):
    case = rec.get("case")
    if case and case.get("layer") == "wm":
        M = case["M"]
        sizes = None if M <= 128 else [1, M // 4, M // 4 + 1, M // 2 - 1, M // 2, M, 1024, 1025]
        return wm_explore(M, sizes, None if M <= 128 else 8)[2]
    return None


def run(ctx):
    quick = ctx.tier == "quick"
    cmax = 40 if quick else 128
    Ms = list(range(0, cmax + 1)) + [1023, 1024, 1025, 4095, 4096, 4097, 65535, 2 ** 31 - 1]
    jobs = [{"Ms": [m], "closure_max": cmax, "depth": 6 if quick else 8} for m in Ms]
    jobs.sort(key=lambda j: -j["Ms"][0] if j["Ms"][0] <= cmax else -10 ** 9)
    ctx.fanout("c05-windowmanager-%s" % ctx.tier, jobs, "job_wm",
               domain="WindowManager closure for max 0..%d, bounded for 8 large maxima" % cmax)
    for role in ("server", "client"):
        ctx.explore(("c05", role, ctx.tier), time_budget=None if quick else 300)
    ctx.explore(("c05", "client", ctx.tier, "promised"), time_budget=None if quick else 300)
    for role in ("server", "client"):
        ctx.explore(("c05", role, ctx.tier, "zero"), time_budget=None if quick else 200)
