"""C26 - each received PING is answered exactly once with the same payload.

Explicit-state BFS: one real connection (server or client) and a scripted
peer.  An action is one ``receive_data`` call carrying a *batch* of 1..3
frames drawn from a menu of PING / PING-ACK frames (four payloads) and
always-valid other traffic, or one ``ping()`` API call.  The oracle reads the
returned events and the independently parsed output of that very call.
"""
import itertools

from .. import harness as H
from .. import wire
from ..canon import fingerprint
from ..explorer import Step

PROPERTY = "C26"
ALPHABET = ("peer batches (1..3 frames per receive_data) over {PING x4 payloads, PING-ACK x2 payloads, "
            "SETTINGS, WINDOW_UPDATE(0), HEADERS opening a stream / response, DATA}; "
            "ping() with payloads of length 0,7,8,9, str, bytearray; connection idle/open/closed-by-error")
BOUNDS = {"quick": "BFS to closure per role with batches <=2 frames (server) ; depth 3",
          "thorough": "BFS depth 4 with batches <=3 frames"}
ASSUMPTIONS = ["PING payload alphabet: 00*8, ff*8, 0102030405060708, 'ABCDEFGH'"]

PAYLOADS = [b"\0" * 8, b"\xff" * 8, bytes(range(1, 9)), b"ABCDEFGH"]
API_PAYLOADS = [b"", b"1234567", b"12345678", b"123456789", "12345678",
                bytearray(b"12345678"), b"\0" * 8]


class S:
    def __init__(self, client):
        self.client = client
        self.conn = H.new_conn(client)
        self.next_peer_sid = 2 if client else 1
        self.open_req = []      # client role: streams with a request outstanding
        self.next_local_sid = 1
        self.closed = False
        self.need_preface = not client
        self.initiated = False

    def need_preface_sent(self):
        """client role: initiate_connection() has not been called yet"""
        return self.client and not self.initiated


PUMP_PINGS = 150


class Spec:
    def __init__(self, key):
        _, role, tier = key
        self.name = "c26-%s-%s" % (role, tier)
        self.client = (role == "client")
        self.tier = tier
        self.max_depth = 3 if tier == "quick" else 4
        singles = ["P0", "P1", "P2", "P3", "A0", "A3", "S", "W", "X"]
        blen = 2 if tier == "quick" else 3
        batches = []
        for n in range(1, blen + 1):
            for combo in itertools.product(singles, repeat=n):
                # keep batches that contain at least one PING-ish frame
                if any(c[0] in "PA" for c in combo):
                    batches.append("rx:" + "+".join(combo))
        # the same traffic arriving in pieces: the first frame of the batch split after its 9-byte header, every later
        # frame in a receive_data call of its own (S2: a SETTINGS frame with two entries, longer than a PING)
        split = ["rxsplit:" + "+".join(c) for c in itertools.product(["S2", "P1", "X"], ["P0", "A3"], ["P2", "S2"])]
        split += ["rxsplit:S2+P0", "rxsplit:X+P3", "rxsplit:P0+P1", "rxsplit:P0", "rxsplit:A3"]
        # the LAST frame of the batch split 12 + 5 (its final piece is shorter than a frame header)
        split += ["rxsplitlast:" + "+".join(c) for c in itertools.product(["S2", "P1"], ["P0", "A3"])] + ["rxsplitlast:P2", "rxsplitlast:A0"]
        split += ["pump"]
        # PINGs whose answers have not been collected when a connection error follows (same chunk / next chunk): the answers
        # are owed all the same, in front of the GOAWAY; and a sized read + clear_outbound_data_buffer before further traffic
        self.menu = batches + split + ["api:%d" % i for i in range(len(API_PAYLOADS))] + ["req", "rxbad", "rxbad:same", "rxbad:next",
                                                                                          "partialclear", "altsvc", "pend+initiate"]

    def initial(self):
        out = []
        s = S(self.client)
        out.append(("fresh", s))
        s = S(self.client)
        if self.client:
            H.handshake_client(s.conn)
            s.initiated = True
        else:
            H.handshake_server(s.conn)
            s.need_preface = False
        out.append(("handshaken", s))
        return out

    def actions(self, st):
        if st.closed:
            return []
        acts = list(self.menu)
        if not self.client:
            acts.remove("req")
        return acts

    def fingerprint(self, st):
        return fingerprint(st.conn, st.next_peer_sid, tuple(st.open_req),
                           st.next_local_sid, st.closed, st.need_preface, st.initiated)

    # ------------------------------------------------------------------
    def _frame(self, st, code):
        if code[0] == "P":
            return wire.ping(PAYLOADS[int(code[1])])
        if code[0] == "A":
            return wire.ping(PAYLOADS[int(code[1])], ack=True)
        if code == "S":
            return wire.settings([])
        if code == "S2":
            return wire.settings([(3, 100), (4, 65535)])
        if code == "W":
            return wire.window_update(0, 1)
        if code == "X":
            # "other traffic": server role - open a new stream; client role -
            # answer the oldest outstanding request (else a SETTINGS frame)
            if not self.client:
                sid = st.next_peer_sid
                st.next_peer_sid += 2
                return wire.headers(sid, H.stateless_block(H.REQ), es=True)
            if st.open_req:
                sid = st.open_req.pop(0)
                return wire.headers(sid, H.stateless_block(H.RESP), es=True)
            return wire.settings([])
        raise ValueError(code)

    def apply(self, st, lab):
        conn = st.conn
        viols = []

        def bad(kind, msg, **sig):
            s = {"kind": kind}
            s.update(sig)
            viols.append({"kind": kind, "sig": s, "msg": msg})

        if lab.startswith("api:"):
            p = API_PAYLOADS[int(lab[4:])]
            o = H.call(conn, "ping", p)
            valid = isinstance(p, bytes) and len(p) == 8
            if valid:
                if o.kind != "ok":
                    bad("ping-refused", "ping(%r) raised %s" % (p, o.exc_name), call="ping")
                elif not (len(o.frames) == 1 and o.frames[0].type == wire.PING and
                          not o.frames[0].f["ack"] and o.frames[0].f["opaque"] == p
                          and o.frames[0].sid == 0) or o.wire_error:
                    bad("ping-wrong-frame", "ping(%r) emitted %s" % (p, o.brief()), call="ping")
            else:
                if o.kind != "raise" or o.exc_name != "ValueError":
                    bad("ping-accepted-bad-payload", "ping(%r) -> %s" % (p, o.brief()),
                        call="ping", payload=repr(p))
                elif o.raw:
                    bad("ping-raise-emitted", "ping(%r) raised but emitted %r" % (p, o.raw), call="ping")
            return Step("api-" + o.kind, viols)
        if lab == "req":
            sid = st.next_local_sid
            o = H.call(conn, "send_headers", sid, H.ni(H.REQ), end_stream=True)
            if o.kind == "ok":
                st.next_local_sid += 2
                st.open_req.append(sid)
            return Step("req-" + o.kind, viols)
        if lab == "pend+initiate":
            # two PINGs received and one sent while nothing has been collected, then (a client that has not done so yet)
            # initiate_connection(): what was queued is still owed
            if not self.client or not st.need_preface_sent():
                return Step("pend+initiate-not-applicable", viols, prune=True)
            try:
                conn.receive_data(wire.settings([]).serialize() + wire.ping(PAYLOADS[2]).serialize() + wire.ping(PAYLOADS[3]).serialize())
                conn.ping(b"12345678")
            except Exception as e:  # noqa: BLE001
                bad("valid-batch-rejected", "SETTINGS + two PINGs before initiate_connection rejected: %r" % e, exc=type(e).__name__)
                st.closed = True
                return Step("rx-raise", viols, prune=True)
            o = H.call(conn, "initiate_connection")
            st.initiated = True
            i = o.raw.find(wire.PREFACE)
            try:
                frames = (wire.parse(o.raw[:i]) + wire.parse(o.raw[i + len(wire.PREFACE):])) if i >= 0 else wire.parse(o.raw)
            except wire.WireError:
                frames = []
            acks = [f.f["opaque"] for f in frames if f.type == wire.PING and f.f["ack"]]
            pings = [f.f["opaque"] for f in frames if f.type == wire.PING and not f.f["ack"]]
            if o.kind != "ok" or i < 0 or acks != [PAYLOADS[2], PAYLOADS[3]] or pings != [b"12345678"]:
                bad("ping-acks", "two PINGs received and one sent before initiate_connection: output %s" % o.brief(),
                    n_expected=2, n_got=len(acks), same_multiset=False)
            return Step("pend+initiate", viols)
        if lab == "altsvc":
            # an unrelated call - refused on a client, an ALTSVC frame on a server - after which PINGs are answered as before
            o = H.call(conn, "advertise_alternative_service", b'h2=":443"', origin=b"example.com")
            if self.client and (o.kind == "ok" or o.raw):
                bad("client-advertised", "advertise_alternative_service on a client -> %s" % o.brief())
            return Step("altsvc-" + o.kind, viols)
        if lab == "partialclear":
            try:
                conn.ping(b"DISCARD!")
            except Exception:  # noqa: BLE001
                return Step("partialclear-not-possible", viols, prune=True)
            first = conn.data_to_send(5)
            conn.clear_outbound_data_buffer()
            if first != wire.ping(b"DISCARD!").serialize()[:5] or conn.data_to_send():
                bad("partial-read-wrong", "data_to_send(5) -> %r, then clear_outbound_data_buffer left output behind" % first)
            return Step("partialclear", viols)
        if lab in ("rxbad:same", "rxbad:next"):
            pre = wire.PREFACE if st.need_preface else b""
            pings = wire.ping(PAYLOADS[2]).serialize() + wire.ping(PAYLOADS[3]).serialize()
            badf = wire.raw(wire.PING, 0, 0, b"1234567").serialize()
            st.closed = True
            if lab == "rxbad:same":
                o = H.recv(conn, pre + pings + badf)
            else:
                try:
                    conn.receive_data(pre + pings)            # answers queued, not collected
                except Exception as e:  # noqa: BLE001
                    bad("valid-batch-rejected", "two PINGs rejected: %r" % e, exc=type(e).__name__)
                    return Step("rx-raise", viols, prune=True)
                o = H.recv(conn, badf)
            acks = [f.f["opaque"] for f in o.frames if f.type == wire.PING and f.f["ack"]]
            kinds = [f.name for f in o.frames]
            if o.kind != "raise" or not o.is_proto:
                bad("short-ping-accepted", "7-byte PING -> %s" % o.brief())
            elif acks != [PAYLOADS[2], PAYLOADS[3]] or o.wire_error or kinds[-1:] != ["GOAWAY"]:
                bad("ping-acks", "two PINGs received before a connection error (%s): output %s%s" % (
                    lab, kinds, " " + o.wire_error if o.wire_error else ""), n_expected=2, n_got=len(acks), same_multiset=False)
            return Step("rx-conn-error", viols, prune=True)
        if lab == "rxbad":
            # a connection error (PING of wrong length) closes the connection:
            # afterwards C19 governs, the path ends here.
            pre = wire.PREFACE if st.need_preface else b""
            o = H.recv(conn, pre + wire.raw(wire.PING, 0, 0, b"1234567").serialize())
            st.closed = True
            if o.kind != "raise" or not o.is_proto:
                bad("short-ping-accepted", "7-byte PING -> %s" % o.brief())
            if any(f.type == wire.PING for f in o.frames):
                bad("short-ping-answered", "7-byte PING answered: %s" % o.brief())
            return Step("rx-conn-error", viols, prune=True)
        if lab == "pump":
            # a long run of PINGs, each answer collected at once through a sized read: every one is answered, none is refused
            pre = wire.PREFACE if st.need_preface else b""
            st.need_preface = False
            for i in range(PUMP_PINGS):
                payload = b"pump%04d" % i
                o = H.Obs()
                try:
                    evs = conn.receive_data((pre if i == 0 else b"") + wire.ping(payload).serialize())
                except Exception as e:  # noqa: BLE001
                    bad("valid-batch-rejected", "PING number %d of a run (every answer collected at once) rejected: %r" % (i + 1, e),
                        exc=type(e).__name__)
                    st.closed = True
                    return Step("rx-raise", viols, prune=True)
                out = conn.data_to_send(17)
                rest = conn.data_to_send(1000)
                want = wire.ping(payload, ack=True).serialize()
                if [type(e).__name__ for e in evs if type(e).__name__.startswith("Ping")] != ["PingReceived"] or out + rest != want:
                    bad("ping-acks", "PING number %d of a run: events %s, output %r" % (i + 1, [type(e).__name__ for e in evs], out + rest),
                        n_expected=1, n_got=(out + rest).count(b"pump"), same_multiset=False)
                    break
            return Step("pump", viols)
        assert lab.startswith("rx:") or lab.startswith("rxsplit")
        codes = lab.split(":", 1)[1].split("+")
        frames = [self._frame(st, c) for c in codes]
        pre = b""
        if st.need_preface:
            pre = wire.PREFACE
            st.need_preface = False
        if lab.startswith("rx:"):
            o = H.recv(conn, pre + wire.ser(frames))
        else:
            if lab.startswith("rxsplitlast:"):
                last = frames[-1].serialize()
                chunks = [pre] + [f.serialize() for f in frames[:-1]] + [last[:12], last[12:]]
            else:
                first = frames[0].serialize()
                chunks = [pre + first[:9], first[9:]] + [f.serialize() for f in frames[1:]]
            o = None
            for ch in chunks:
                if not ch:
                    continue
                o2 = H.recv(conn, ch)
                if o is None:
                    o = o2
                else:
                    o2.events = list(o.events) + list(o2.events or [])
                    o2.frames = list(o.frames) + list(o2.frames)
                    o2.raw = o.raw + o2.raw
                    o = o2
                if o.kind == "raise":
                    break
        exp_events = []
        exp_acks = []
        for c in codes:
            if c[0] == "P":
                exp_events.append(("PingReceived", PAYLOADS[int(c[1])]))
                exp_acks.append(PAYLOADS[int(c[1])])
            elif c[0] == "A":
                exp_events.append(("PingAckReceived", PAYLOADS[int(c[1])]))
        got_acks = []
        for f in o.frames:
            if f.type == wire.PING:
                if not f.f["ack"]:
                    bad("unsolicited-ping", "library emitted a non-ACK PING: %s" % o.brief())
                if f.sid != 0:
                    bad("ping-on-stream", "PING on stream %d" % f.sid)
                got_acks.append(f.f["opaque"])
        if o.wire_error:
            bad("malformed-output", o.wire_error)
        if o.kind == "raise":
            bad("valid-batch-rejected", "batch %s rejected: %s %s" % (lab, o.brief(), o.msg),
                exc=o.exc_name)
            st.closed = True
            return Step("rx-raise", viols, prune=True)
        got_events = [(type(e).__name__, e.ping_data) for e in o.events
                      if type(e).__name__ in ("PingReceived", "PingAckReceived")]
        if got_events != exp_events:
            bad("ping-events", "batch %s: events %r, expected %r" % (lab, got_events, exp_events),
                n_expected=len(exp_events), n_got=len(got_events))
        if got_acks != exp_acks:
            bad("ping-acks", "batch %s: PING ACK frames %r, expected %r" % (lab, got_acks, exp_acks),
                n_expected=len(exp_acks), n_got=len(got_acks),
                same_multiset=sorted(got_acks) == sorted(exp_acks))
        return Step("rx-ok-%dping" % len(exp_acks), viols)


def make_spec(key):
    return Spec(key)


def run(ctx):
    for role in ("server", "client"):
        ctx.explore(("c26", role, ctx.tier))
