"""C19 - a closed connection stays quiet.

Explicit-state BFS whose initial states are the product of (explored base
states of the real connection: streams open, half-closed, reserved, reset and
forgotten, header block in progress, received data not yet acknowledged,
output not yet handed to the application) x (every way of closing:
close_connection, a received GOAWAY, and connection errors of the
frame-size, protocol and flow-control class), for both roles.  From there
every sequence up to the depth bound of: EVERY public call with representative
arguments (including acknowledge_received_data, increment_flow_control_window,
ping, update_settings, prioritize, close_connection again) and every frame
type on every relevant stream id (including naked CONTINUATION, unknown types
and a further GOAWAY).

Oracle: all bytes emitted after the close parse as GOAWAY frames only; every
call that would otherwise emit a non-GOAWAY frame or open a stream raises
ProtocolError; immediately after a received GOAWAY data_to_send() is empty.
"""
import pickle

from .. import corpus
from .. import harness as H
from .. import wire
from ..canon import fingerprint
from ..explorer import Step

PROPERTY = "C19"
ALPHABET = "closing routes: close_connection (default arguments / last_stream_id=2^31-1) / received GOAWAY (alone / with binary debug data / after a PING or SETTINGS in the same chunk) / FRAME_SIZE, PROTOCOL, FLOW_CONTROL connection errors; post-close: all sending calls on ids {1,2,3,5}, acknowledge_received_data, close_connection, and frames of every type on ids {0,1,2,3}"
BOUNDS = {"quick": "all base states x 10 closing routes x both roles, post-close depth 3 (after the drain step)", "thorough": "post-close depth 4"}
sb = H.stateless_block

ROUTES = ["close_connection", "close_connection-last-max", "rx-goaway", "rx-goaway-binary-debug", "rx-ping+goaway", "rx-settings+goaway",
          "err-frame-size", "err-protocol", "err-flow-control", "err-state-machine"]
MUST_RAISE = ("send_headers", "send_data", "end_stream", "increment_flow_control_window", "push_stream", "ping",
              "reset_stream", "update_settings", "advertise_alternative_service", "prioritize", "initiate_connection",
              "initiate_upgrade_connection")


def base_conn(client, name):
    if name == "unacked-data":
        h = H.Solo(client)
        if client:
            h.api("send_headers", 1, H.ni(H.REQ_POST))
            h.rx([wire.headers(1, sb(H.RESP))])
        else:
            h.rx([wire.headers(1, sb(H.REQ_POST))])
        for _ in range(3):
            h.rx([wire.data(1, b"x" * 16000)])
        return h.conn
    if name == "unacked-data-forgotten":
        # as above, but the stream has ended both ways and the library has dropped it from its stream table since
        h = H.Solo(client)
        if client:
            h.api("send_headers", 1, H.ni(H.REQ_POST), end_stream=True)
            h.rx([wire.headers(1, sb(H.RESP))])
        else:
            h.rx([wire.headers(1, sb(H.REQ_POST))])
            h.api("send_headers", 1, H.ni(H.RESP), end_stream=True)
        for i in range(3):
            h.rx([wire.data(1, b"x" * 16000, es=(i == 2))])
        if client:
            h.api("send_headers", 3, H.ni(H.REQ_POST))
        else:
            h.rx([wire.headers(3, sb(H.REQ_POST))])
        h.cleanup()
        assert 1 not in h.conn.streams
        return h.conn
    if name in ("pending-output", "pending-output-partly-read"):
        c = corpus.build_state(client, "open")
        c.ping(b"12345678")
        if not client:
            c.send_headers(1, H.ni(H.RESP))
        c.send_data(1, b"pending")
        return c
    return corpus.build_state(client, name)


def close_it(conn, client, route):
    """-> (ok, obs)"""
    if route.startswith("close_connection"):
        try:
            if route == "close_connection":
                conn.close_connection(0)
            else:
                conn.close_connection(0, last_stream_id=2 ** 31 - 1)       # legal: "no stream was refused" (RFC 7540 6.8)
        except Exception:  # noqa: BLE001
            return False
        return True
    if route == "rx-goaway":
        data = wire.goaway(0, 0, b"bye").serialize()
    elif route == "rx-goaway-binary-debug":
        # the additional debug data is opaque (RFC 7540 6.8): neither text nor UTF-8
        data = wire.goaway(0, 2, b"\xff\xfe\x00\xc3").serialize()
    elif route == "rx-ping+goaway":
        # frames that call for an automatic reply, followed by the GOAWAY in the same chunk
        data = wire.ping(b"12345678").serialize() + wire.goaway(0, 0, b"bye").serialize()
    elif route == "rx-settings+goaway":
        data = wire.settings([(4, 70000)]).serialize() + wire.goaway(0, 0, b"bye").serialize()
    elif route == "err-frame-size":
        data = wire.raw(wire.PING, 0, 0, b"short").serialize()
    elif route == "err-state-machine":
        # an input the CONNECTION state machine itself refuses: a server receiving PUSH_PROMISE, a client that has sent no
        # request receiving DATA
        if not client:
            data = wire.push_promise(1, 2, sb(H.REQ)).serialize()
        elif conn.state_machine.state.name == "IDLE":
            data = wire.data(1, b"x").serialize()
        else:
            return False
    elif route == "err-protocol":
        data = wire.raw(wire.WINDOW_UPDATE, 0, 0, b"\0\0\0\0").serialize()
    else:
        data = wire.window_update(0, 2 ** 31 - 1).serialize()
    try:
        conn.receive_data(data)
    except Exception as e:  # noqa: BLE001
        if route.startswith("rx-"):
            return "%s: %s" % (type(e).__name__, e)      # a GOAWAY that is legal on the wire was not taken: reported below
        return True
    return route.startswith("rx-")


class S:
    pass


class Spec:
    def __init__(self, key):
        _, role, tier = key
        self.client = role == "client"
        self.tier = tier
        self.name = "c19-%s-%s" % (role, tier)
        self.max_depth = 4 if tier == "quick" else 5
        client = self.client
        calls = []
        for sid in (1, 2, 3, 5):
            calls.append(("send_headers:%d" % sid, "send_headers", (sid, H.ni(H.REQ if client else H.RESP)), {}))
            calls.append(("send_data:%d" % sid, "send_data", (sid, b"x"), {}))
            calls.append(("end_stream:%d" % sid, "end_stream", (sid,), {}))
            calls.append(("reset_stream:%d" % sid, "reset_stream", (sid,), {}))
            calls.append(("incr:%d" % sid, "increment_flow_control_window", (5,), {"stream_id": sid}))
            calls.append(("ack:%d" % sid, "acknowledge_received_data", (40000, sid), {}))
            calls.append(("ack-small:%d" % sid, "acknowledge_received_data", (1, sid), {}))
            calls.append(("prioritize:%d" % sid, "prioritize", (sid,), {"weight": 3}))
        calls.append(("incr:conn", "increment_flow_control_window", (5,), {}))
        calls.append(("push", "push_stream", (1, 2 if client else 4, H.ni(H.REQ)), {}))
        calls.append(("ping", "ping", (b"12345678",), {}))
        calls.append(("update_settings", "update_settings", ({4: 100},), {}))
        calls.append(("altsvc", "advertise_alternative_service", (b"h2=\":1\"",), {"origin": b"example.com"}))
        for sid in (1, 3):
            # the implicit form goes through the stream as well as the connection
            calls.append(("altsvc:%d" % sid, "advertise_alternative_service", (b"h2=\":1\"",), {"stream_id": sid}))
        calls.append(("close_again", "close_connection", (2,), {}))
        calls.append(("initiate", "initiate_connection", (), {}))
        calls.append(("initiate_upgrade", "initiate_upgrade_connection", (), {}))
        self.calls = {c[0]: c for c in calls}
        fr = {}
        for sid in (1, 2, 3):
            fr["H:%d" % sid] = wire.headers(sid, sb(H.RESP if client else H.REQ))
            fr["D:%d" % sid] = wire.data(sid, b"abc")
            fr["R:%d" % sid] = wire.rst_stream(sid, 8)
            fr["W:%d" % sid] = wire.window_update(sid, 5)
            fr["P:%d" % sid] = wire.priority(sid, 0, 5, False)
            fr["C:%d" % sid] = wire.continuation(sid, sb(H.TRAILERS))
        fr["W:0"] = wire.window_update(0, 5)
        fr["S"] = wire.settings([(4, 10)])
        fr["SA"] = wire.settings([], ack=True)
        fr["PING"] = wire.ping(b"abcdefgh")
        fr["GOAWAY"] = wire.goaway(1, 0)
        fr["PP"] = wire.push_promise(1, 4, sb(H.REQ))
        fr["ALTSVC"] = wire.altsvc(0, b"example.com", b"f")
        fr["UNK"] = wire.raw(0x42, 0, 1, b"zzz")
        fr["GARBAGE"] = wire.raw(wire.DATA, 0, 0, b"x")
        self.frames = fr

    def initial(self):
        out = []
        names = [n for n in (corpus.CLIENT_STATES if self.client else corpus.SERVER_STATES) if not n.startswith("closed")]
        names += ["unacked-data", "unacked-data-forgotten", "pending-output", "pending-output-partly-read"]
        for name in names:
            for route in ROUTES:
                if name == "pending-output-partly-read" and not route.startswith("rx-"):
                    continue      # (what is left of a half-read frame does not parse: only the discard on GOAWAY is judged here)
                conn = base_conn(self.client, name)
                pre = b""
                if name == "fresh" and not self.client and not route.startswith("close_connection"):
                    conn.receive_data(wire.PREFACE)
                if name == "preface-half" and not route.startswith("close_connection"):
                    conn.receive_data(wire.PREFACE[10:])
                if name == "pending-output-partly-read":
                    conn.data_to_send(9)      # a sized read that leaves most of the queued output behind
                elif name != "pending-output":
                    conn.data_to_send()
                res = close_it(conn, self.client, route)
                if not res or (isinstance(res, str) and name == "mid-block"):
                    continue          # (inside a header block a GOAWAY is itself a connection error: the err- routes cover that)
                st = S()
                st.conn = conn
                st.route = route
                st.base = name
                st.first = True
                st.route_failed = res if isinstance(res, str) else None
                out.append(("%s/%s" % (name, route), st))
        return out

    def fingerprint(self, st):
        return fingerprint(st.conn, st.first, st.route_failed)

    def actions(self, st):
        if st.route_failed:
            return ["report"] if st.first else []
        if st.first:
            # either the application collects the output first, or the peer's GOAWAY gets there before it does
            return ["drain", "goaway-before-drain"]
        return ["call:" + k for k in sorted(self.calls)] + ["rx:" + k for k in sorted(self.frames)]

    def apply(self, st, lab):
        viols = []

        def bad(kind, msg, **sig):
            s = {"kind": kind, "role": "client" if self.client else "server"}
            s.update(sig)
            viols.append({"kind": kind, "sig": s, "msg": "[%s closed by %s] %s" % (st.base, st.route, msg)})

        def only_goaway(o, what, **sig):
            if o.wire_error:
                bad("malformed-output-after-close", "%s: %s" % (what, o.wire_error), **sig)
            other = [f for f in o.frames if f.type != wire.GOAWAY]
            if other:
                bad("non-goaway-frame-after-close", "%s emitted %s" % (what, [f.brief() for f in other]),
                    frame=other[0].name, **sig)

        conn = st.conn
        if lab == "report":
            st.first = False
            bad("goaway-not-accepted", "the peer's GOAWAY was answered with %s" % st.route_failed, route=st.route)
            return Step("route-failed", viols, prune=True)
        if lab == "drain":
            # the output right after the close
            st.first = False
            o = H.Obs()
            H.drain(conn, o)
            if st.route.startswith("rx-"):
                if o.raw:
                    bad("output-not-discarded-on-goaway", "after receiving GOAWAY data_to_send() returned %d bytes: %s" % (
                        len(o.raw), [f.brief() for f in o.frames]), base=st.base)
            else:
                gos = [f for f in o.frames if f.type == wire.GOAWAY]
                if len(gos) != 1 or o.frames[-1].type != wire.GOAWAY:
                    bad("closing-goaway-missing", "output after close: %s" % [f.brief() for f in o.frames], route=st.route)
            return Step("drain-" + st.route, viols)
        if lab == "goaway-before-drain":
            st.first = False
            o = H.recv(conn, wire.goaway(0, 0, b"bye").serialize())
            if o.kind == "raise" and not o.is_proto:
                bad("non-protocol-exception-after-close", "%s raised %s" % (lab, o.exc_name), via="recv", exc=o.exc_name)
            if o.kind == "ok" and o.raw:
                bad("output-not-discarded-on-goaway", "a GOAWAY received before the pending output was collected left %d bytes: %s" % (
                    len(o.raw), [f.brief() for f in o.frames]), base=st.base, already_closed=True)
            return Step("goaway-before-drain-" + o.kind, viols)
        kind, name = lab.split(":", 1)
        if kind == "call":
            _, method, args, kw = self.calls[name]
            o = H.call(conn, method, *args, **kw)
            only_goaway(o, lab, via=method)
            if o.kind == "raise":
                if not o.is_proto and not (method == "prioritize" and o.exc_name == "RFC1122Error"):
                    bad("non-protocol-exception-after-close", "%s raised %s (%s)" % (lab, o.exc_name, o.msg), via=method, exc=o.exc_name)
                return Step("call-raise", viols)
            if method in MUST_RAISE:
                bad("call-succeeded-after-close", "%s succeeded on a closed connection: %s" % (lab, o.brief()), via=method)
            return Step("call-ok", viols)
        o = H.recv(conn, self.frames[name].serialize())
        only_goaway(o, lab, via="recv:" + name.split(":")[0])
        if o.kind == "raise" and not o.is_proto:
            bad("non-protocol-exception-after-close", "%s raised %s" % (lab, o.exc_name), via="recv", exc=o.exc_name)
        evs = [type(e).__name__ for e in o.events]
        if o.kind == "ok" and any(e not in ("ConnectionTerminated", "UnknownFrameReceived") for e in evs):
            bad("events-after-close", "%s produced events %s on a closed connection" % (lab, evs), frame=name.split(":")[0])
        return Step("rx-" + o.kind, viols)


def make_spec(key):
    return Spec(key)


def run(ctx):
    for role in ("server", "client"):
        ctx.explore(("c19", role, ctx.tier))
