"""C24 - alternative-service advertisements follow the RFC 7838 rules.

Explicit-state BFS of the shared stream-lifecycle system (one real connection
per role, focus + auxiliary + promised stream, every local action and received
frame kind that moves a stream through its states, plus cleanup), extended
with: advertise_alternative_service with origin / stream / both, on a server
and on a client, for the focus, the promised and an unused stream; received
ALTSVC on stream 0 with / without origin and on streams in every state with /
without origin.

Oracle (the statement of C24): only servers can advertise; origin xor stream
(both: ValueError); the stream form only between request received and response
headers sent; a client reports AlternativeServiceAvailable with the origin
given, or with the :authority of its own request for the stream form, only
before it has received response headers on that stream; servers, and ALTSVC
frames with an empty (stream 0) or conflicting (stream-bound) origin, are
silently ignored: no event, no error, no frame.
"""
from .. import harness as H
from .. import lifecycle as L
from .. import wire
from ..models import streams as SM

PROPERTY = "C24"
ALPHABET = "lifecycle menu + advertise_alternative_service {origin, stream f / promised / unused, both, both with origin b'' , both with stream_id 0} + received ALTSVC {stream 0 +-origin, stream f / aux / promised / unused +-origin}"
BOUNDS = {"quick": "depth 6 per role", "thorough": "depth 9 per role (or time budget, reported)"}
FIELD = b'h2=":8443"; ma=60'


class Spec(L.Spec):
    go_on_after_refusal = True       # a call refused for its arguments changes nothing: the window for ALTSVC stays as it was

    def __init__(self, key):
        role, tier = key[1], key[2]
        self.reqform = key[3] if len(key) > 3 else "bytes"     # how the client application writes its request header list
        client = role == "client"
        super().__init__(client, (6 if tier == "quick" else 9) - (1 if self.reqform != "bytes" else 0))
        self.name = "c24-%s%s-%s" % (role, "" if self.reqform == "bytes" else "-" + self.reqform, tier)
        f, aux = self.sids
        p = self.promised
        self.alt = ["l:altsvc:origin", "l:altsvc:%d" % f, "l:altsvc:%d" % p, "l:altsvc:7", "l:altsvc:both:%d" % f, "l:altsvc:both-empty-origin:%d" % f, "l:altsvc:both-stream0:0",
                    "rx:altsvc:0:origin", "rx:altsvc:0:none"]
        for sid in (f, aux, p, 7):
            self.alt += ["rx:altsvc:%d:none" % sid, "rx:altsvc:%d:origin" % sid]
        # a reduced lifecycle menu is enough to reach every stream state
        keep = []
        for lab in self.menu:
            parts = lab.split(":")
            if len(parts) < 3:
                keep.append(lab)
                continue
            if parts[1] in ("wu", "cont"):
                continue
            if parts[1] == "hdr" and parts[3] == "trailers" and parts[-1] != "es":
                continue
            keep.append(lab)
        self.menu = keep + self.alt
        if not client:
            # a response the library refuses for its header list (:status after a regular field): no response headers were sent
            self.menu.append("l:badresp:%d" % f)

    def execute(self, st, lab):
        parts = lab.split(":")
        if self.client and len(parts) >= 4 and parts[:2] == ["l", "hdr"] and parts[3] == "request":
            # the same request, written with text values (and byte or text names): the remembered :authority is reported as bytes all the same
            o0, info = None, None
            blk = L.BLOCKS["request"]
            if self.reqform == "mixed":
                hdrs = [(n, v.decode("ascii")) for n, v in blk]
            elif self.reqform == "bytes":
                hdrs = list(H.ni(blk))
            else:
                hdrs = [(n.decode("ascii"), v.decode("ascii")) for n, v in blk]
            real = st.h.api

            def api(method, sid, _ignored, **kw):
                try:
                    return real(method, sid, hdrs, **kw)
                finally:
                    # the list belongs to the application, which goes on using it for its next request to another origin:
                    # what the library reports later is the authority this request was SENT with
                    hdrs[:] = [(b":method", b"GET"), (b":scheme", b"https"), (b":path", b"/"), (b":authority", b"later.example")]
            st.h.api = api
            try:
                return super().execute(st, lab)
            finally:
                del st.h.api
        if self.client and len(parts) >= 4 and parts[:2] == ["rx", "push"]:
            # the promised request names another authority than the request it is promised on
            parent, promised = int(parts[2]), int(parts[3])
            m = st.h.m
            s = m.get(parent)
            info = {"dir": "rx", "kind": "push", "es": False, "sid": parent, "promised": promised, "status": m.status(parent),
                    "state": s.state if s is not None else "idle", "closed_by": s.closed_by if s is not None else None,
                    "sent": s.sent if s is not None else "none", "recv": s.recv if s is not None else "none",
                    "promised_status": m.status(promised)}
            preq = [(n, (b"pushed.example" if n == b":authority" else v)) for n, v in H.REQ]
            return st.h.rx([wire.push_promise(parent, promised, L.sb(preq))], ("push", parent, promised)), info
        if len(parts) >= 2 and parts[1] == "badresp":
            sid = int(parts[2])
            m = st.h.m
            s = m.get(sid)
            info = {"dir": "l", "kind": "badresp", "es": False, "sid": sid, "status": m.status(sid),
                    "state": s.state if s is not None else "idle", "closed_by": s.closed_by if s is not None else None,
                    "sent": s.sent if s is not None else "none", "recv": s.recv if s is not None else "none"}
            return st.h.api("send_headers", sid, H.ni([(b"x-a", b"1"), (b":status", b"200")])), info
        if len(parts) < 2 or parts[1] != "altsvc":
            return super().execute(st, lab)
        h = st.h
        m = h.m
        info = {"dir": parts[0], "kind": "altsvc", "es": False}
        if parts[0] == "l" and self.client:
            info["proj0"] = H.quiescent_projection(h.conn)
        if parts[0] == "l":
            if parts[2] == "origin":
                info.update(form="origin", sid=0)
                o = h.api("advertise_alternative_service", FIELD, origin=b"alt.example")
            elif parts[2].startswith("both"):
                # an origin AND a stream are named - also when one of the two is a falsy value (b"", 0)
                info.update(form="both", sid=int(parts[3]))
                o = h.api("advertise_alternative_service", FIELD, origin=(b"" if parts[2] == "both-empty-origin" else b"alt.example"),
                          stream_id=int(parts[3]))
            else:
                sid = int(parts[2])
                s = m.get(sid)
                info.update(form="stream", sid=sid, status=m.status(sid), state=s.state if s else "idle",
                            sent=s.sent if s else "none", local_init=s.local_init if s else None)
                o = h.api("advertise_alternative_service", FIELD, stream_id=sid)
            return o, info
        sid = int(parts[2])
        with_origin = parts[3] == "origin"
        s = m.get(sid)
        info.update(sid=sid, with_origin=with_origin, status=m.status(sid) if sid else "zero", state=s.state if s else "idle",
                    recv=s.recv if s else "none", local_init=s.local_init if s else None, pushed=s.pushed if s else None)
        o = h.rx([wire.altsvc(sid, b"alt.example" if with_origin else b"", FIELD)])
        return o, info

    def judge(self, st, lab, info, o, bad):
        if info["kind"] == "badresp":
            if o.kind == "ok" or o.raw:
                bad("invalid-response-accepted", "%s -> %s" % (lab, o.brief()))
            return "badresp-" + o.kind
        if info["kind"] != "altsvc":
            return "drive-" + o.kind
        client = self.client
        if info["dir"] == "l":
            form = info["form"]
            if form == "both":
                if not (o.kind == "raise" and o.exc_name == "ValueError" and not o.raw):
                    bad("both-origin-and-stream-accepted", "%s -> %s" % (lab, o.brief()))
                return "l-both"
            if client:
                if not (o.kind == "raise" and o.is_proto and not o.raw):
                    bad("client-advertised", "%s on a client -> %s" % (lab, o.brief()), form=form)
                else:
                    # "only servers can advertise": the refusal is about the caller's role and leaves the connection exactly
                    # as it was - connection state included
                    diff = H.projection_diff(info["proj0"], H.quiescent_projection(st.h.conn))
                    if diff:
                        bad("refused-client-advertisement-changed-state", "%s raised %s but changed: %s" % (lab, o.exc_name, ", ".join(diff)),
                            form=form, changed=",".join(diff))
                return "l-client-refused"
            if form == "origin":
                if st.h.m.closed:
                    return "l-origin-closed"
                ok = (o.kind == "ok" and len(o.frames) == 1 and o.frames[0].type == wire.ALTSVC and o.frames[0].sid == 0 and
                      o.frames[0].f["origin"] == b"alt.example" and o.frames[0].f["field"] == FIELD)
                if not ok:
                    bad("origin-advertisement-wrong", "%s -> %s" % (lab, o.brief()))
                return "l-origin"
            state, sent = info["state"], info["sent"]
            allowed = state in ("open", "hc_remote") and sent == "none" and info["local_init"] is False
            # reserved(local): the promised request is "received" in a sense - unspecified.  half-closed(local) without
            # response headers can only arise through known finding C08 (END_STREAM before headers).
            unspecified = state == "reserved_local" or (state == "hc_local" and sent == "none")
            if unspecified:
                return "l-stream-unspecified"
            if allowed:
                ok = (o.kind == "ok" and len(o.frames) == 1 and o.frames[0].type == wire.ALTSVC and o.frames[0].sid == info["sid"]
                      and o.frames[0].f["origin"] == b"" and o.frames[0].f["field"] == FIELD)
                if not ok:
                    bad("stream-advertisement-refused-or-wrong", "%s in state %s (response headers not sent) -> %s" % (lab, state, o.brief()),
                        state=state)
                return "l-stream-ok"
            if not (o.kind == "raise" and o.is_proto and not o.raw):
                bad("stream-advertisement-outside-window", "%s in state %s (sent=%s) must be refused with ProtocolError -> %s" % (
                    lab, state, sent, o.brief()), state=state, sent=sent, got=o.exc_name or "accepted")
            return "l-stream-refused"
        # ---- received ALTSVC
        if o.kind == "raise":
            if st.h.m.closed and False:
                return "rx-closed"
            bad("altsvc-caused-error", "%s (stream state %s) raised %s: %s" % (lab, info["state"], o.exc_name, o.msg), state=info["state"],
                exc=o.exc_name)
            return "rx-raise"
        evs = [e for e in o.events if type(e).__name__ == "AlternativeServiceAvailable"]
        others = [type(e).__name__ for e in o.events if type(e).__name__ != "AlternativeServiceAvailable"]
        if o.raw or others:
            bad("altsvc-side-effects", "%s produced %s" % (lab, o.brief()))
        sid = info["sid"]
        if not client:
            expect = None
        elif sid == 0:
            expect = b"alt.example" if info["with_origin"] else None
        else:
            state = info["state"]
            if info["with_origin"]:
                expect = None
            elif info["pushed"] and state == "reserved_remote":
                expect = b"pushed.example"       # the promised request is this stream's request
            elif state in ("open", "hc_local") and info["recv"] == "none" and info["local_init"]:
                expect = b"example.com"
            else:
                expect = None
        if expect == "unspecified":
            return "rx-unspecified"
        if expect is None:
            if evs:
                bad("altsvc-not-ignored", "%s (role %s, stream state %s, recv=%s) must be silently ignored, got event origin=%r" % (
                    lab, "client" if client else "server", info["state"], info["recv"], evs[0].origin),
                    state=info["state"], with_origin=info["with_origin"], recv=info["recv"])
            return "rx-ignored"
        if len(evs) != 1 or evs[0].origin != expect or evs[0].field_value != FIELD:
            bad("altsvc-event-wrong", "%s (stream state %s): expected AlternativeServiceAvailable(origin=%r), got %s" % (
                lab, info["state"], expect, [(e.origin, e.field_value) for e in evs]), state=info["state"], zero=(sid == 0))
        return "rx-event"


def make_spec(key):
    return Spec(key)


def run(ctx):
    for role in ("server", "client"):
        ctx.explore(("c24", role, ctx.tier), time_budget=None if ctx.tier == "quick" else 240)
    for form in ("mixed", "str"):
        ctx.explore(("c24", "client", ctx.tier, form), time_budget=None if ctx.tier == "quick" else 200)
