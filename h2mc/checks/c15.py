"""C15 - inbound header validation accepts exactly the conformant header blocks.

Bounded-exhaustive input fan-out: for each inbound position (request and
trailers at a server; response / informational, trailers, pushed request and
pushed response at a client) a canonical valid decoded list, then EVERY list
within edit distance <= 2 of it over an adversarial token alphabet (the C14
alphabet plus empty name, names with outer whitespace, non-UTF-8 bytes, NUL,
':' alone, several cookie fields), encoded by the harness's own HPACK encoder
(indexable and never-indexed forms) and delivered as HEADERS / PUSH_PROMISE to
a clone of an explored state of the real connection, under all 8
validate x normalise x header_encoding configurations.

Oracle (models/headers_spec): with validation on the block is delivered iff
conformant for its block type and otherwise refused with PROTOCOL_ERROR
(exception + GOAWAY); delivered headers equal the decoded block, with cookies
joined into one trailing never-indexed field when normalisation is on and as
text when header_encoding is set.  With validation off nothing is demanded
about acceptance, only about what is delivered.
"""
import pickle

import hpack
from hpack import HeaderTuple, NeverIndexedHeaderTuple

from .. import corpus
from .. import harness as H
from .. import wire
from ..models import headers_spec as HS
from . import c14

PROPERTY = "C15"
TECHNIQUE = "bounded-exhaustive enumeration of decoded header lists (edit-distance ball over an adversarial token alphabet) delivered to the real connection, judged by an RFC 7540 8.1.2 reference predicate"
RULE = ("one evaluation = one (configuration, position, header list, encoding form) delivered to a clone of the start state; "
        "non-trivial = the reference predicate rejects it, or normalisation/decoding changes what is delivered")

EXTRA = [
    (b"", b"x"), (b" x-lead", b"v"), (b"x-trail ", b"v"), (b"x-val", b" v"), (b"x-bin", b"\xff\xfe"), (b"x-\xff", b"v"),
    (b"x-nul", b"a\x00b"), (b":", b"x"), (b"cookie", b"b=2"), (b"cookie", b"c=3"), (b"x-in ner", b"v"),
    # the other four octets Python (and the library) count as whitespace: LF, CR, VT, FF at either end of a name or a value
    (b"x-lf", b"v\n"), (b"\rx-cr", b"v"), (b"x-vt", b"\x0bv"), (b"x-ff\x0c", b"v"),
]
TOKENS = c14.TOKENS + EXTRA
SMALL = c14.SMALL_TOKENS + [EXTRA[0], EXTRA[1], EXTRA[3], EXTRA[4], EXTRA[8], EXTRA[9], EXTRA[11], EXTRA[14]]
TINY = [c14.TOKENS[i] for i in (0, 4, 5, 7, 8, 11, 14, 22, 24)] + [EXTRA[0], EXTRA[3], EXTRA[4], EXTRA[8]]
POSITIONS = {
    # name: (client, state, block type, base list)
    "request": (False, "handshaken", "request", c14.BASES["request"]),
    "s-trailers": (False, "open", "trailers", c14.BASES["trailers"]),
    "response": (True, "open", "response", c14.BASES["response"]),
    "info": (True, "open", "info", c14.BASES["info"]),
    "c-trailers": (True, "resp-headers", "trailers", c14.BASES["trailers"]),
    "push": (True, "open", "push", c14.BASES["push"]),
    "pushed-response": (True, "reserved-remote", "response", c14.BASES["response"]),
    # the same block types when this endpoint has already sent its own trailers on the stream
    "response-after-own-trailers": (True, "own-trailers-sent", "response", c14.BASES["response"]),
    "s-trailers-after-own-trailers": (False, "own-trailers-sent", "trailers", c14.BASES["trailers"]),
}
CFGS = [(v, n, e) for v in (True, False) for n in (True, False) for e in (None, "utf-8")]
ALPHABET = "tokens: C14 alphabet + %r; positions %s; encodings of the block: incremental-indexing and never-indexed literals" % (EXTRA, sorted(POSITIONS))
BOUNDS = {"quick": "edit distance <= 2 over the full alphabet (default configuration) and over a 13-token alphabet (other 7 configurations; distance 1 over the full alphabet)",
          "thorough": "edit distance <= 2 over the full alphabet in all 8 configurations; distance 3 over the reduced alphabet in the default configuration"}


C15_TOKSETS = {"full": TOKENS, "small": SMALL, "tiny": TINY, "shell": c14.SMALL_TOKENS + [EXTRA[0], EXTRA[4]]}
POS_BASES = {k: v[3] for k, v in POSITIONS.items()}
_BALLS = {}


def lists_for(pos, tokset, dist, part):
    k = (pos, tokset, dist, part)
    if k not in _BALLS:
        base = POS_BASES[pos]
        if part == "d1":
            _BALLS[k] = c14.ball(base, TOKENS, 1)
        elif part == "rest":
            d1 = set(c14.ball(base, TOKENS, 1))
            _BALLS[k] = [l for l in c14.ball(base, C15_TOKSETS[tokset], dist) if l not in d1]
        else:
            inner = set(c14.ball(base, C15_TOKSETS[tokset], dist - 1))
            _BALLS[k] = [l for l in c14.ball(base, C15_TOKSETS[tokset], dist) if l not in inner]
    return _BALLS[k]


def frames_for(pos, block):
    if pos in ("request", "response", "info", "response-after-own-trailers"):
        return [wire.headers(1, block)]
    if pos in ("s-trailers", "c-trailers", "s-trailers-after-own-trailers"):
        return [wire.headers(1, block, es=True)]
    if pos == "push":
        return [wire.push_promise(1, 2, block)]
    return [wire.headers(2, block)]


def judge(pos, cfg, lst, form, viols, outcomes):
    validate, normalize, enc = cfg[:3]
    switched = len(cfg) > 3
    client, state, btype, _ = POSITIONS[pos]
    cfgkey = (("validate_inbound_headers", validate), ("normalize_inbound_headers", normalize), ("header_encoding", enc))
    if switched:
        # the connection was built - and this stream received its first block - under the opposite switches; the application
        # has changed its configuration since: the block is judged by the configuration in force when it arrives
        cfgkey = (("validate_inbound_headers", not validate), ("normalize_inbound_headers", not normalize), ("header_encoding", enc))
    conn = corpus.clone(client, state, cfgkey)
    if switched:
        conn.config.validate_inbound_headers = validate
        conn.config.normalize_inbound_headers = normalize
    eff = btype
    if btype in ("response", "info") and pos != "pushed-response":
        eff = "info" if HS.is_informational(lst) else "response"
    if pos == "pushed-response" and HS.is_informational(lst):
        outcomes["unspecified"] = outcomes.get("unspecified", 0) + 1
        return False
    conf, why = HS.conformant(eff, lst)
    if conf is HS.UNSPECIFIED:
        outcomes["unspecified"] = outcomes.get("unspecified", 0) + 1
        return False
    undecodable = False
    if enc:
        try:
            for n, v in lst:
                n.decode(enc)
                v.decode(enc)
        except UnicodeDecodeError:
            undecodable = True
    enc_headers = [HeaderTuple(n, v) for n, v in lst] if form == "indexed" else [NeverIndexedHeaderTuple(n, v) for n, v in lst]
    block = hpack.Encoder().encode(enc_headers, huffman=(form == "indexed"))
    o = H.recv(conn, wire.ser(frames_for(pos, block)))
    case = {"pos": pos, "cfg": [validate, normalize, enc] + (["switched"] if switched else []), "form": form, "list": [[n.hex(), v.hex()] for n, v in lst]}

    def bad(kind, msg, **sig):
        s = {"kind": kind, "btype": eff, "validate": validate, "normalize": normalize, "encoding": str(enc)}
        if switched:
            s["config_switched_midstream"] = True
        s.update(sig)
        k = repr(sorted(s.items()))
        if k not in viols:
            viols[k] = {"kind": kind, "sig": s, "msg": "[%s v=%s n=%s enc=%s %s] %r: %s" % (pos, validate, normalize, enc, form, list(lst), msg),
                        "case": case}

    delivered = None
    if o.kind == "ok":
        for e in o.events:
            if getattr(e, "headers", None) is not None:
                delivered = e
                break
    if o.kind == "raise" and not o.is_proto:
        bad("non-protocol-exception", "raised %s in %s" % (o.exc_name, o.where), exc=o.exc_name)
        return True
    if undecodable:
        # nothing that is delivered can be "the decoded text" of a list that does not decode in the configured encoding
        outcomes["undecodable"] = outcomes.get("undecodable", 0) + 1
        if delivered is not None:
            bad("undecodable-block-delivered", "the list does not decode as %s but was delivered as %r" % (
                enc, [(h[0], h[1]) for h in delivered.headers]))
        return True
    if validate:
        if conf is True and not undecodable:
            outcomes["conformant"] = outcomes.get("conformant", 0) + 1
            if delivered is None:
                bad("conformant-block-refused", "conformant %s block not delivered: %s %s" % (eff, o.brief(), o.msg or ""),
                    got=(o.exc_name or "no-event"))
                return True
        elif conf is False:
            outcomes["nonconformant"] = outcomes.get("nonconformant", 0) + 1
            gos = [f for f in o.frames if f.type == wire.GOAWAY]
            if delivered is not None or o.kind == "ok":
                bad("nonconformant-block-delivered", "violates 8.1.2 (%s) but -> %s" % (why, o.brief()), why=why)
                return True
            if int(o.code) != wire.PROTOCOL_ERROR or len(gos) != 1 or gos[0].f["code"] != wire.PROTOCOL_ERROR:
                bad("nonconformant-wrong-code", "violates 8.1.2 (%s), refused with %s" % (why, o.brief()), why=why,
                    got=wire.err_name(int(o.code)))
            return True
        else:
            outcomes["undecodable"] = outcomes.get("undecodable", 0) + 1
            return True
    else:
        outcomes["validation-off"] = outcomes.get("validation-off", 0) + 1
    if delivered is not None and not undecodable:
        want = HS.expected_inbound_delivery(lst, normalize, enc)
        got = [(h[0], h[1]) for h in delivered.headers]
        if got != want:
            bad("delivered-headers-differ", "delivered %r, expected %r" % (got, want))
        elif normalize and any(n == b"cookie" for n, v in lst):
            last = delivered.headers[-1]
            if not isinstance(last, NeverIndexedHeaderTuple):
                bad("joined-cookie-indexable", "joined cookie delivered as %s" % type(last).__name__)
        return want != [(n, v) for n, v in lst]
    return conf is not True


def job_isolation(job):
    """Several connections with DIFFERENT header_encoding values in one process, one after the other, all receiving the
    same lists (non-ASCII names included): what one connection decoded must not influence what the next one delivers."""
    pos = job["pos"]
    lists = lists_for(pos, "full", 1, "d1")
    viols, outcomes = {}, {}
    n = nt = 0
    for enc in job["order"]:
        for lst in lists:
            n += 1
            if judge(pos, (True, True, enc), lst, "ni", viols, outcomes):
                nt += 1
    for v in viols.values():
        v["sig"]["isolation_order"] = "/".join(str(e) for e in job["order"])
        v["case"] = {"iso_job": {"iso": True, "pos": pos, "order": job["order"]}, "single": v["case"]}
    return {"evaluations": n, "outcomes": {pos + ":iso:" + k: v for k, v in outcomes.items()}, "nontrivial": nt,
            "violations": list(viols.values()), "samples": []}


def job(job):
    if job.get("iso"):
        return job_isolation(job)
    pos, cfg, forms = job["pos"], tuple(job["cfg"]), job["forms"]
    lists = lists_for(pos, job["tokset"], job["dist"], job["part"])[job["shard"]::job["nshards"]]
    viols, outcomes = {}, {}
    n = nt = 0
    for lst in lists:
        for form in forms:
            n += 1
            if judge(pos, cfg, lst, form, viols, outcomes):
                nt += 1
    return {"evaluations": n, "outcomes": {pos + ":" + k: v for k, v in outcomes.items()}, "nontrivial": nt,
            "violations": list(viols.values()),
            "samples": [{"position": pos, "cfg": list(cfg),
                         "list": [[a.decode("latin-1"), b.decode("latin-1")] for a, b in lists[len(lists) // 3]]}] if lists else []}


def replay(rec):
    c = rec["case"]
    if "iso_job" in c:
        # needs the history: the same sequence of connections in one (fresh) process
        want = rec.get("sig", {})
        return [v for v in job_isolation(c["iso_job"])["violations"] if v["sig"] == want] or job_isolation(c["iso_job"])["violations"]
    viols, outcomes = {}, {}
    lst = tuple((bytes.fromhex(a), bytes.fromhex(b)) for a, b in c["list"])
    judge(c["pos"], tuple(c["cfg"]), lst, c["form"], viols, outcomes)
    return list(viols.values())


def make_spec(key):
    raise NotImplementedError


def run(ctx):
    quick = ctx.tier == "quick"
    jobs = []
    total = 0
    for pos in POSITIONS:
        for cfg in CFGS:
            default = cfg == (True, True, None)
            tokset = "full" if (default or not quick) else "tiny"
            nrest = len(lists_for(pos, tokset, 2, "rest"))
            nd1 = len(lists_for(pos, "full", 1, "d1"))
            total += nrest + nd1
            ns = max(1, nrest // 1500)
            for i in range(ns if not pos.endswith("after-own-trailers") else 0):      # those two positions: distance 1 only
                jobs.append({"pos": pos, "cfg": list(cfg), "tokset": tokset, "dist": 2, "part": "rest", "shard": i, "nshards": ns,
                             "forms": ["ni"]})
            jobs.append({"pos": pos, "cfg": list(cfg), "tokset": "full", "dist": 1, "part": "d1", "shard": 0, "nshards": 1,
                         "forms": ["ni", "indexed"]})
        if not quick:
            n3 = len(lists_for(pos, "shell", 3, "shell3"))
            total += n3
            ns = max(1, n3 // 3000)
            for i in range(ns):
                jobs.append({"pos": pos, "cfg": [True, True, None], "tokset": "shell", "dist": 3, "part": "shell3", "shard": i,
                             "nshards": ns, "forms": ["ni"]})
    # the validate / normalise switches changed by the application after the stream has received its first block
    for pos in ("c-trailers", "s-trailers"):
        for v in (True, False):
            for nrm in (True, False):
                jobs.append({"pos": pos, "cfg": [v, nrm, None, "switched"], "tokset": "full", "dist": 1, "part": "d1", "shard": 0,
                             "nshards": 1, "forms": ["ni"]})
    # connections with different header_encoding values sharing a process (both orders, on different positions)
    jobs.append({"iso": True, "pos": "request", "order": ["latin-1", "utf-8", None, "latin-1"]})
    jobs.append({"iso": True, "pos": "response", "order": ["utf-8", "latin-1", None, "utf-8"]})
    _BALLS.clear()
    ctx.fanout("c15-%s" % ctx.tier, jobs, "job", domain="%d distinct (position, configuration, list) cases" % total)
    ctx.fanouts[-1]["states"] = len(POSITIONS) * len(CFGS)
