"""C23 - priority information round-trips and never changes stream state.

Bounded-exhaustive fan-out from explored base states of the real connection.

 (a) emission: prioritize() and send_headers(priority_*) with weight in
     {-1, 0} + 1..256 + {257, None}, depends_on in {None, 0, self, another id,
     2^31-1}, exclusive in {None, False, True}, on clients and servers, target
     ids idle / open / closed / forgotten / never used.  The emitted frame is
     parsed by the independent codec and also delivered to a real peer
     connection (round trip).
 (b) reception: PRIORITY frames and HEADERS+PRIORITY with every weight byte
     0..255, depends_on in {0, self, 3, 2^31-1}, both exclusive values, on
     every id of {1,2,3,5,101,2^31-1} in every base state (both roles) before
     the connection is closed.

Oracle: acceptance exactly as the property states (clients only, weight
1..256, no self-dependency; RFC1122Error for servers); wire fields equal the
arguments with defaults (16, 0, False); the peer's PriorityUpdated carries the
same values and is attached to priority_updated when sent with headers; a
received PRIORITY yields exactly one PriorityUpdated (self-dependency:
PROTOCOL_ERROR) and leaves the stream-and-flow projection of the state
identical.
"""
import pickle

from .. import corpus
from .. import harness as H
from .. import wire

PROPERTY = "C23"
TECHNIQUE = "bounded-exhaustive argument/frame fan-out from explored states of the real connection with wire-level and peer round-trip oracles"
RULE = ("one evaluation = one call or one frame on a clone of a base state; non-trivial = rejected, or carries a non-default field, "
        "or targets a stream that is not open")
WEIGHTS = [-1, 0] + list(range(1, 257)) + [257, None]
ALPHABET = "weights -1,0,1..256,257,None; depends_on None,0,self,other,2^31-1; exclusive None/False/True; ids idle/open/closed/forgotten/unused; received weight bytes 0..255"
BOUNDS = {"quick": "full weight range x all depends_on x all exclusive on 3 target ids / 5 states (emission); all weight bytes x 4 deps x 2 excl x 6 ids x all states (reception, weights thinned to 32 in non-open states)",
          "thorough": "full product everywhere"}

sb = corpus.sb
EMIT_STATES = ["handshaken", "open", "reset-by-us", "forgotten", "two-streams"]


def _v(viols, kind, msg, case, **sig):
    s = {"kind": kind}
    s.update(sig)
    k = repr(sorted(s.items()))
    if k not in viols:
        viols[k] = {"kind": kind, "sig": s, "msg": msg, "case": case}


def expected_emit(client, sid, w, dep, ex):
    if not client:
        return "RFC1122Error"
    if dep is not None and dep == sid:
        return "ProtocolError"
    if w is not None and not (1 <= w <= 256):
        return "ProtocolError"
    return "ok"


def peer_for(client):
    """A real peer of the opposite role, handshaken, to deliver emitted frames to."""
    h = H.Solo(not client)
    return pickle.dumps(h.conn)


_PEER = {}


def job_emit(job):
    client, state, sids = job["client"], job["state"], job["sids"]
    blob = corpus.state_blob(client, state)
    if client not in _PEER:
        _PEER[client] = peer_for(client)
    viols, outcomes = {}, {}
    n = nt = 0
    for sid in sids:
        for w in job["weights"]:
            for dep in (None, 0, sid, 3 if sid != 3 else 5, 2 ** 31 - 1):
                for ex in (None, False, True):
                    # ---- prioritize()
                    conn = pickle.loads(blob)
                    kw = {}
                    if w is not None:
                        kw["weight"] = w
                    if dep is not None:
                        kw["depends_on"] = dep
                    if ex is not None:
                        kw["exclusive"] = ex
                    o = H.call(conn, "prioritize", sid, **kw)
                    exp = expected_emit(client, sid, w, dep, ex)
                    case = {"fam": "emit", "client": client, "state": state, "sid": sid, "w": w, "dep": dep, "ex": ex, "via": "prioritize"}
                    n += 1
                    got = "ok" if o.kind == "ok" else o.exc_name
                    outcomes["prioritize:" + got] = outcomes.get("prioritize:" + got, 0) + 1
                    if exp != "ok" or w not in (None, 16) or dep or ex:
                        nt += 1
                    if got != exp:
                        _v(viols, "prioritize-acceptance", "prioritize(%d, weight=%r, depends_on=%r, exclusive=%r) on %s/%s: expected %s, got %s" % (
                            sid, w, dep, ex, "client" if client else "server", state, exp, o.brief()), case,
                           role="client" if client else "server", expected=exp, got=got, via="prioritize")
                    elif exp == "ok":
                        want = (dep or 0, w if w is not None else 16, bool(ex))
                        ok = (len(o.frames) == 1 and o.frames[0].type == wire.PRIORITY and o.frames[0].sid == sid
                              and o.frames[0].f["prio"] == want and not o.wire_error)
                        if not ok:
                            _v(viols, "priority-frame-fields", "prioritize(%d, %r, %r, %r) emitted %s, expected PRIORITY%r" % (
                                sid, w, dep, ex, o.brief(), want), case, via="prioritize")
                        else:
                            peer = pickle.loads(_PEER[client])
                            po = H.recv(peer, o.raw)
                            evs = [e for e in po.events if type(e).__name__ == "PriorityUpdated"]
                            if po.kind != "ok" or len(po.events) != 1 or len(evs) != 1 or (
                                    evs[0].stream_id, evs[0].depends_on, evs[0].weight, evs[0].exclusive) != (sid,) + want:
                                _v(viols, "priority-roundtrip", "peer saw %s for prioritize(%d, %r, %r, %r)" % (
                                    po.brief(), sid, w, dep, ex), case, via="prioritize")
                    elif o.raw:
                        _v(viols, "refused-priority-emitted", "refused prioritize emitted bytes", case, via="prioritize")
                    # ---- send_headers with priority arguments on a NEW stream (client: next id; server: stream 1 response)
                    if w is None and dep is None and ex is None:
                        continue
                    conn = pickle.loads(blob)
                    if client:
                        try:
                            hsid = conn.get_next_available_stream_id()
                        except Exception:  # noqa: BLE001
                            continue
                        hdrs = H.ni(H.REQ)
                    else:
                        hsid = 1
                        hdrs = H.ni(H.RESP)
                        if state not in ("open", "two-streams"):
                            continue
                    dep2 = hsid if dep == sid else dep
                    big = client and w in (None, 1, 77, 256) and sid == sids[0]
                    if big:
                        # every fourth weight: a header list whose block needs CONTINUATION frames (the priority fields
                        # travel in the first frame only and must survive the reassembly at the peer)
                        hdrs = hdrs + H.ni([(b"x-big", b"Z" * 20000)])
                    o = H.call(conn, "send_headers", hsid, hdrs, priority_weight=w, priority_depends_on=dep2,
                               priority_exclusive=ex)
                    exp = expected_emit(client, hsid, w, dep2, ex)
                    case = {"fam": "emit", "client": client, "state": state, "sid": sid, "w": w, "dep": dep, "ex": ex, "via": "send_headers"}
                    n += 1
                    got = "ok" if o.kind == "ok" else o.exc_name
                    outcomes["send_headers:" + got] = outcomes.get("send_headers:" + got, 0) + 1
                    nt += 1
                    if got != exp:
                        _v(viols, "prioritize-acceptance", "send_headers(%d, priority_weight=%r, depends_on=%r, exclusive=%r) on %s/%s: expected %s, got %s" % (
                            hsid, w, dep2, ex, "client" if client else "server", state, exp, o.brief()), case,
                           role="client" if client else "server", expected=exp, got=got, via="send_headers")
                    elif exp == "ok":
                        want = (dep2 or 0, w if w is not None else 16, bool(ex))
                        ok = (len(o.frames) >= 1 and o.frames[0].type == wire.HEADERS and o.frames[0].f["prio"] == want and not o.wire_error
                              and all(f.type == wire.CONTINUATION for f in o.frames[1:]) and (len(o.frames) > 1) == bool(big))
                        if not ok:
                            _v(viols, "priority-frame-fields", "send_headers(priority %r,%r,%r) emitted %s, expected priority %r" % (
                                w, dep2, ex, o.brief(), want), case, via="send_headers")
                        else:
                            peer = pickle.loads(_PEER[client])
                            # bring the peer to the same stream id watermark
                            po = H.recv(peer, o.raw)
                            req = [e for e in po.events if type(e).__name__ == "RequestReceived"]
                            pu = [e for e in po.events if type(e).__name__ == "PriorityUpdated"]
                            good = (po.kind == "ok" and len(req) == 1 and len(pu) == 1 and req[0].priority_updated is pu[0]
                                    and (pu[0].stream_id, pu[0].depends_on, pu[0].weight, pu[0].exclusive) == (hsid,) + want
                                    and po.events.index(pu[0]) > po.events.index(req[0]))
                            if not good:
                                _v(viols, "priority-roundtrip", "peer saw %s for send_headers(%d, priority %r,%r,%r)" % (
                                    po.brief(), hsid, w, dep2, ex), case, via="send_headers")
    # ---- priority arguments given with TRAILERS on an existing stream (clients): sent and reported like any other
    if client and state == "open" and sids[0] == 1:
        for w in (None, 1, 16, 200, 256):
            for dep in (None, 0, 3, 2 ** 31 - 1):
                for ex in (None, False, True):
                    if w is None and dep is None and ex is None:
                        continue
                    conn = pickle.loads(blob)
                    o = H.call(conn, "send_headers", 1, H.ni(H.TRAILERS), end_stream=True, priority_weight=w, priority_depends_on=dep,
                               priority_exclusive=ex)
                    n += 1
                    nt += 1
                    outcomes["trailers+priority:" + o.kind] = outcomes.get("trailers+priority:" + o.kind, 0) + 1
                    want = (dep or 0, w if w is not None else 16, bool(ex))
                    case = {"fam": "emit", "client": client, "state": state, "sid": 1, "w": w, "dep": dep, "ex": ex, "via": "trailers"}
                    if o.kind != "ok":
                        _v(viols, "prioritize-acceptance", "send_headers(1, trailers, priority %r,%r,%r) -> %s" % (w, dep, ex, o.brief()), case,
                           role="client", expected="ok", got=o.exc_name, via="trailers")
                    elif not (len(o.frames) == 1 and o.frames[0].type == wire.HEADERS and o.frames[0].f["prio"] == want and o.frames[0].f["es"]):
                        _v(viols, "priority-frame-fields", "send_headers(1, trailers, priority %r,%r,%r) emitted %s, expected priority %r" % (
                            w, dep, ex, o.brief(), want), case, via="trailers")
    return {"evaluations": n, "outcomes": outcomes, "nontrivial": nt, "violations": list(viols.values()),
            "samples": [{"family": "emit", "role": "client" if client else "server", "state": state,
                         "call": "prioritize(%d, weight=256, depends_on=2147483647, exclusive=True)" % sids[0]}]}


RX_SIDS = [1, 2, 3, 5, 101, 2 ** 31 - 1]


def job_recv(job):
    client, state, wbytes = job["client"], job["state"], job["wbytes"]
    blob = corpus.state_blob(client, state)
    viols, outcomes = {}, {}
    n = nt = 0
    base = pickle.loads(blob)
    proj0 = H.stream_flow_projection(base)
    pre = wire.PREFACE if (state == "fresh" and not client) else b""
    for sid in RX_SIDS:
        for wb in wbytes:
            for dep in (0, sid, 3 if sid != 3 else 5, 2 ** 31 - 1):
                for ex in (False, True):
                    conn = pickle.loads(blob)
                    fr = wire.priority(sid, dep, wb + 1, ex)
                    o = H.recv(conn, pre + fr.serialize())
                    n += 1
                    case = {"fam": "recv", "client": client, "state": state, "hex": fr.serialize().hex()}
                    if dep == sid:
                        nt += 1
                        outcomes["recv:self-dependency"] = outcomes.get("recv:self-dependency", 0) + 1
                        if not (o.kind == "raise" and o.is_proto and int(o.code) == wire.PROTOCOL_ERROR):
                            _v(viols, "self-dependency-accepted", "PRIORITY sid=%d depending on itself in %s: %s" % (sid, state, o.brief()),
                               case, state=state)
                        continue
                    outcomes["recv:ok"] = outcomes.get("recv:ok", 0) + 1
                    evs = o.events if o.kind == "ok" else []
                    good = (o.kind == "ok" and len(evs) == 1 and type(evs[0]).__name__ == "PriorityUpdated" and
                            (evs[0].stream_id, evs[0].depends_on, evs[0].weight, evs[0].exclusive) == (sid, dep, wb + 1, ex)
                            and not o.raw)
                    if not good:
                        _v(viols, "priority-received-wrong", "PRIORITY(sid=%d dep=%d w=%d ex=%s) in %s/%s -> %s %s" % (
                            sid, dep, wb + 1, ex, "client" if client else "server", state, o.brief(),
                            [H.event_brief(e) for e in evs]), case, state=state, outcome=o.exc_name or "ok")
                        continue
                    proj1 = H.stream_flow_projection(conn)
                    p0 = proj0
                    if pre:
                        # the preface itself was consumed too: compare with a clone that got only the preface
                        c0 = pickle.loads(blob)
                        c0.receive_data(pre)
                        p0 = H.stream_flow_projection(c0)
                    if proj1 != p0:
                        diff = [i for i, (a, b) in enumerate(zip(p0, proj1)) if a != b]
                        _v(viols, "priority-changed-state", "PRIORITY(sid=%d) in %s/%s changed stream/flow state (projection fields %s)" % (
                            sid, "client" if client else "server", state, diff), case, state=state, fields=str(diff))
    # ---- several priority-bearing frames: each event keeps its own values (also after later frames were processed)
    for (a, b) in (((1, 3, 7, False), (3, 0, 200, True)), ((5, 0, 1, True), (5, 7, 256, False)), ((101, 1, 16, False), (2, 101, 99, True))):
        fa, fb = wire.priority(*a), wire.priority(*b)
        for mode in ("one-call", "two-calls"):
            conn = pickle.loads(blob)
            if mode == "one-call":
                o = H.recv(conn, pre + fa.serialize() + fb.serialize())
                evs = list(o.events) if o.kind == "ok" else []
            else:
                o1 = H.recv(conn, pre + fa.serialize())
                o = H.recv(conn, fb.serialize())
                evs = (list(o1.events) if o1.kind == "ok" else []) + (list(o.events) if o.kind == "ok" else [])
            n += 1
            nt += 1
            outcomes["recv:two-frames"] = outcomes.get("recv:two-frames", 0) + 1
            pus = [e for e in evs if type(e).__name__ == "PriorityUpdated"]
            got = [(e.stream_id, e.depends_on, e.weight, e.exclusive) for e in pus]
            if o.kind != "ok" or got != [a, b] or (len(pus) == 2 and pus[0] is pus[1]):
                _v(viols, "priority-received-wrong", "two PRIORITY frames %r, %r (%s) in %s/%s reported as %r" % (
                    a, b, mode, "client" if client else "server", state, got),
                   {"fam": "recv", "client": client, "state": state, "hex": fa.serialize().hex()}, state=state, outcome="two-frames:" + mode)
    return {"evaluations": n, "outcomes": outcomes, "nontrivial": nt, "violations": list(viols.values()),
            "samples": [{"family": "recv", "role": "client" if client else "server", "state": state,
                         "frame": "PRIORITY sid=101 dep=3 weight=256 exclusive"}]}


def job_recvh(job):
    """HEADERS frames carrying priority fields: a request opening stream 1 / 5 at a server, a response on the client's
    open stream 1; as one frame and split into HEADERS + CONTINUATION (the priority fields are in the first frame)."""
    client, wbytes = job["client"], job["wbytes"]
    blob = corpus.state_blob(client, "open" if client else "handshaken")
    viols, outcomes = {}, {}
    n = nt = 0
    for sid in ((1,) if client else (1, 5)):
        block = sb(H.RESP if client else H.REQ)
        for wb in wbytes:
            for dep in (0, sid, 3, 2 ** 31 - 1):
                for ex in (False, True):
                    for split in (False, True):
                        conn = pickle.loads(blob)
                        if split:
                            frs = [wire.headers(sid, block[:3], prio=(dep, wb + 1, ex), eh=False), wire.continuation(sid, block[3:])]
                        else:
                            frs = [wire.headers(sid, block, prio=(dep, wb + 1, ex))]
                        o = H.recv(conn, wire.ser(frs))
                        n += 1
                        case = {"fam": "recvh", "client": client, "hex": wire.ser(frs).hex()}
                        if dep == sid:
                            nt += 1
                            outcomes["recvh:self-dependency"] = outcomes.get("recvh:self-dependency", 0) + 1
                            if not (o.kind == "raise" and o.is_proto and int(o.code) == wire.PROTOCOL_ERROR):
                                _v(viols, "self-dependency-accepted", "HEADERS sid=%d with priority fields depending on itself: %s" % (sid, o.brief()),
                                   case, carrier="HEADERS", split=split)
                            continue
                        outcomes["recvh:ok"] = outcomes.get("recvh:ok", 0) + 1
                        evs = o.events if o.kind == "ok" else []
                        main = [e for e in evs if type(e).__name__ in ("RequestReceived", "ResponseReceived")]
                        pu = [e for e in evs if type(e).__name__ == "PriorityUpdated"]
                        good = (o.kind == "ok" and len(main) == 1 and len(pu) == 1 and main[0].priority_updated is pu[0] and
                                (pu[0].stream_id, pu[0].depends_on, pu[0].weight, pu[0].exclusive) == (sid, dep, wb + 1, ex))
                        if not good:
                            _v(viols, "priority-received-wrong", "HEADERS(sid=%d dep=%d w=%d ex=%s%s) at a %s -> %s %s" % (
                                sid, dep, wb + 1, ex, " + CONTINUATION" if split else "", "client" if client else "server", o.brief(),
                                [H.event_brief(e) for e in evs]), case, carrier="HEADERS", split=split, outcome=o.exc_name or "ok")
    return {"evaluations": n, "outcomes": outcomes, "nontrivial": nt, "violations": list(viols.values()), "samples": []}


def dispatch(job):
    return globals()["job_" + job["fam"]](job)


def replay(rec):
    case = rec["case"]
    if case["fam"] == "emit":
        r = job_emit({"client": case["client"], "state": case["state"], "sids": [case["sid"]], "weights": [case["w"]]})
    elif case["fam"] == "recvh":
        fr = wire.split_frames(bytes.fromhex(case["hex"]))[0]
        r = job_recvh({"client": case["client"], "wbytes": [fr.payload[4]]})
    else:
        fr = wire.split_frames(bytes.fromhex(case["hex"]))[0]
        r = job_recv({"client": case["client"], "state": case["state"], "wbytes": [fr.payload[4]]})
    return r["violations"]


def make_spec(key):
    raise NotImplementedError


def run(ctx):
    quick = ctx.tier == "quick"
    jobs = []
    for client in (False, True):
        for state in EMIT_STATES:
            sids = [1, 5, 101] if quick else [1, 2, 3, 5, 101, 2 ** 31 - 1]
            for sid in sids:
                ws = WEIGHTS if (client or not quick) else [-1, 0, 1, 16, 256, 257, None]
                jobs.append({"fam": "emit", "client": client, "state": state, "sids": [sid], "weights": ws})
        states = corpus.CLIENT_STATES if client else corpus.SERVER_STATES
        for state in states:
            if state.startswith("closed") or state in ("preface-half", "mid-block"):
                continue
            full = (not quick) or state in ("open", "handshaken", "two-streams", "forgotten")
            wb = list(range(256)) if full else list(range(0, 256, 8)) + [255]
            jobs.append({"fam": "recv", "client": client, "state": state, "wbytes": wb})
    for client in (False, True):
        for lo in range(0, 256, 32):
            jobs.append({"fam": "recvh", "client": client, "wbytes": list(range(lo, lo + 32))})
    ctx.fanout("c23-%s" % ctx.tier, jobs, "dispatch", domain="%d jobs" % len(jobs))
    ctx.fanouts[-1]["states"] = len(corpus.CLIENT_STATES) + len(corpus.SERVER_STATES)
