"""C04 - inbound flow control is enforced exactly at the advertised windows.

Explicit-state BFS of one real connection (each role) in product with an
integer model of the windows *actually advertised to the peer*: acknowledged
INITIAL_WINDOW_SIZE, plus the WINDOW_UPDATE increments really present in the
output (parsed by the independent codec), minus the flow-controlled length of
DATA received - per stream and for the connection.

Actions: peer DATA (flow-controlled length 1, A, A+1 relative to the
advertised window A; padded or not; on open streams and on a stream the
application reset), increment_flow_control_window (stream / connection; 1, 7,
exactly-to-2^31-1, one-past), acknowledge_received_data (zero, the amount
outstanding, over-acknowledging, negative, on unknown ids),
update_settings({INITIAL_WINDOW_SIZE: v}) with the peer's SETTINGS ACK
arriving at any later point.

Oracle: remote_flow_control_window(sid) == min(connection, stream) advertised
window after every step; DATA that overruns an advertised window raises
FlowControlError with GOAWAY FLOW_CONTROL_ERROR; DATA that fits is never
rejected; a window-changing call that raises emits nothing and leaves every
window accessor unchanged.
"""
from .. import harness as H
from .. import wire
from ..canon import fingerprint
from ..explorer import Step

PROPERTY = "C04"
ALPHABET = ("peer DATA fcl in {1, A, A+1} x pad {None, 3}; increment_flow_control_window {1, 7, to 2^31-1, past} on stream/connection; "
            "acknowledge_received_data {0, outstanding, outstanding+5, -1} and on never-used ids; update_settings IWS in {0,1,5,65535,70000}; "
            "peer SETTINGS ACK at any point; reset_stream; open next stream; client: PUSH_PROMISE (reserved stream with windows), response HEADERS on it")
BOUNDS = {"quick": "depth 6, <=2 streams, both roles", "thorough": "depth 8 (or time budget, reported), <=2 streams"}
MAXW = 2 ** 31 - 1
sb = H.stateless_block
IWS_VALUES = [0, 1, 5, 65535, 70000]


class S:
    pass


class Spec:
    def __init__(self, key):
        _, role, tier = key
        self.client = role == "client"
        self.tier = tier
        self.name = "c04-%s-%s" % (role, tier)
        self.max_depth = 6 if tier == "quick" else 8
        self.max_streams = 2

    def initial(self):
        st = S()
        st.h = H.Solo(self.client)
        # acknowledge the initial SETTINGS frame, then raise the local frame
        # limit so that one DATA frame can fill a whole window
        st.h.rx([wire.settings([], ack=True)])
        st.h.api("update_settings", {wire.S_MAX_FRAME_SIZE: 2 ** 24 - 1})
        st.h.rx([wire.settings([], ack=True)])
        st.Ac = 65535
        st.acked = 65535
        st.pending = []         # IWS values sent, not yet acknowledged (FIFO)
        st.As = {}              # live receiving streams: advertised window
        st.unacked = {}         # sid -> flow-controlled bytes received, not yet acknowledged by the app
        st.reset = set()        # streams the application reset
        st.ended = set()       # streams whose peer side has ended: no further DATA, the windows stay observable
        st.closed = False      # the peer has sent GOAWAY: every window-changing call raises now, and changes nothing
        st.cl = {}              # sid -> bytes still allowed by the content-length the peer announced
        st.gone = {}            # their last advertised stream window (the library may still adjust it)
        st.nstreams = 0
        st.resv = set()         # client role: promised streams whose response HEADERS have not arrived (windows exist, no DATA yet)
        st.npush = 0
        st.dead = False
        return [("start", st)]

    def fingerprint(self, st):
        return fingerprint(st.h.conn, st.Ac, st.acked, tuple(st.pending), tuple(sorted(st.As.items())),
                           tuple(sorted(st.unacked.items())), tuple(sorted(st.reset)), tuple(sorted(st.gone.items())), st.nstreams, st.dead,
                           tuple(sorted(st.resv)), st.npush, tuple(sorted(st.ended)), st.closed, tuple(sorted(st.cl.items())))

    def actions(self, st):
        if st.dead:
            return []
        acts = []
        if st.closed:
            for sid in sorted(st.As):
                acts += ["ack:%d:all" % sid, "ack:%d:over" % sid, "incr:%d:7" % sid]
            return acts + ["incr:0:7", "ack:101:big"]
        acts.append("rxgoaway")
        if st.nstreams < self.max_streams:
            acts.append("open")
            if not st.cl and st.acked < 65535:       # (only where the stream window is the smaller one: elsewhere the connection window decides first)
                # a message that announces its length: a frame that overruns the window AND the announced length is a
                # flow-control error all the same
                acts.append("opencl")
        if self.client and st.npush < 1 and any(s % 2 and s not in st.ended for s in st.As):
            acts.append("rxpush:%d" % min(s for s in st.As if s % 2 and s not in st.ended))
        for sid in sorted(st.resv):
            acts.append("rxresp:%d" % sid)
        for sid in sorted(st.As):
            if sid in st.resv:
                for inc in ("1", "max", "over"):
                    acts.append("incr:%d:%s" % (sid, inc))
                continue
            if sid in st.cl:
                # only frames whose verdict does not depend on the length rules: one byte while the announced length
                # allows it, and the overrun
                if sid not in st.ended:
                    if st.cl[sid] >= 1:
                        acts.append("data:%d:1:n" % sid)
                    if min(st.Ac, st.As[sid]) >= 2:
                        acts.append("data:%d:A+1:n" % sid)
            elif sid not in st.ended:
                for L in ("1", "A", "A+1"):
                    for p in ("n", "3", "es"):      # es: unpadded, carrying END_STREAM - charged like any other DATA
                        acts.append("data:%d:%s:%s" % (sid, L, p))
            for inc in ("1", "7", "max", "over"):
                acts.append("incr:%d:%s" % (sid, inc))
            for a in ("0", "all", "over", "neg"):
                acts.append("ack:%d:%s" % (sid, a))
            acts.append("reset:%d" % sid)
        for sid in sorted(st.reset):
            if sid in st.ended:
                continue                      # the peer had ended the stream before: it has nothing in flight
            for L in ("1", "A", "A+1"):
                acts.append("rdata:%d:%s" % (sid, L))
        for inc in ("1", "7", "max", "over"):
            acts.append("incr:0:%s" % inc)
        acts.append("ack:101:5")
        acts.append("ack:102:5")
        acts.append("ack:101:big")
        acts.append("ack:102:big")
        for v in IWS_VALUES:
            acts.append("iws:%d" % v)
        acts.append("iwsbad:5")          # update_settings({INITIAL_WINDOW_SIZE: 5, MAX_FRAME_SIZE: 1}): refused as a whole
        if st.pending:
            acts.append("rxack")
        return acts

    # ------------------------------------------------------------------
    def _accessors(self, st):
        out = {"conn": st.h.conn.inbound_flow_control_window}
        for sid in st.As:
            try:
                out[sid] = st.h.conn.remote_flow_control_window(sid)
            except Exception as e:  # noqa: BLE001
                out[sid] = "raise:" + type(e).__name__
        return out

    def _absorb_wu(self, st, o, bad):
        """Credit the model from WINDOW_UPDATE frames really emitted."""
        for f in o.frames:
            if f.type == wire.WINDOW_UPDATE:
                inc = f.f["inc"]
                if f.sid == 0:
                    st.Ac += inc
                elif f.sid in st.As:
                    st.As[f.sid] += inc
                elif f.sid in st.reset:
                    pass
                else:
                    bad("window-update-on-unknown-stream", "WINDOW_UPDATE emitted on stream %d" % f.sid)

    def apply(self, st, lab):
        viols = []
        h = st.h

        def bad(kind, msg, **sig):
            s = {"kind": kind}
            s.update(sig)
            viols.append({"kind": kind, "sig": s, "msg": msg})

        parts = lab.split(":")
        out = parts[0]
        if lab in ("open", "opencl"):
            st.nstreams += 1
            sid = 2 * st.nstreams - 1
            extra = [(b"content-length", b"2")] if lab == "opencl" else []
            if lab == "opencl":
                st.cl[sid] = 2          # the peer's message announces a body of two bytes
            if self.client:
                o = h.api("send_headers", sid, H.ni(H.REQ_POST))
                if o.kind == "ok":
                    o = h.rx([wire.headers(sid, sb(H.RESP + extra))], ("headers", sid, False, False))
            else:
                o = h.rx([wire.headers(sid, sb(H.REQ_POST + extra))], ("headers", sid, False, False))
            if o.kind != "ok":
                bad("open-failed", "opening stream %d failed: %s" % (sid, o.brief()))
                st.dead = True
                return Step("open-failed", viols, prune=True)
            st.As[sid] = st.acked
            st.unacked[sid] = 0
        elif parts[0] == "rxpush":
            parent = int(parts[1])
            st.npush += 1
            promised = 2 * st.npush
            o = h.rx([wire.push_promise(parent, promised, sb(H.REQ))], ("push", parent, promised))
            if o.kind != "ok" or o.frames:
                bad("open-failed", "PUSH_PROMISE(%d -> %d) -> %s" % (parent, promised, o.brief()))
                st.dead = True
                return Step("open-failed", viols, prune=True)
            st.As[promised] = st.acked      # a new stream starts with the acknowledged INITIAL_WINDOW_SIZE
            st.unacked[promised] = 0
            st.resv.add(promised)
        elif parts[0] == "rxresp":
            sid = int(parts[1])
            o = h.rx([wire.headers(sid, sb(H.RESP))], ("headers", sid, False, False))
            if o.kind != "ok" or o.frames:
                bad("open-failed", "response HEADERS on promised stream %d -> %s" % (sid, o.brief()))
                st.dead = True
                return Step("open-failed", viols, prune=True)
            st.resv.discard(sid)
        elif parts[0] == "rxgoaway":
            o = h.rx([wire.goaway(2 ** 31 - 1, 0, b"")])
            if o.kind != "ok":
                bad("goaway-rejected", o.brief())
            st.closed = True
            out = "rxgoaway"
        elif parts[0] in ("data", "rdata"):
            sid = int(parts[1])
            on_reset = parts[0] == "rdata"
            A = st.Ac if on_reset else min(st.Ac, st.As[sid])
            es = (not on_reset) and parts[3] == "es"
            pad = None if (on_reset or parts[3] in ("n", "es")) else int(parts[3])
            L = {"1": 1, "A": A, "A+1": A + 1}[parts[2]]
            over = 0 if pad is None else pad + 1
            if L < over:
                L = over
            if L > 2 ** 24 - 1 or L < 0:
                return Step("data-not-expressible", viols, prune=True)
            o = h.rx([wire.data(sid, b"x" * (L - over), pad=pad, es=es)], ("data", sid, es))
            if es:
                st.ended.add(sid)
            fits = L <= A
            if fits:
                if o.kind != "ok":
                    bad("fitting-data-rejected", "DATA fcl=%d on stream %d with advertised windows conn=%d stream=%s rejected: %s %s" % (
                        L, sid, st.Ac, st.As.get(sid), o.brief(), o.msg), exc=o.exc_name, on_reset_stream=on_reset,
                        padded=pad is not None)
                    st.dead = True
                    return Step("data-rejected", viols, prune=True)
                st.Ac -= L
                if sid in st.cl:
                    st.cl[sid] -= L
                if not on_reset:
                    st.As[sid] -= L
                    st.unacked[sid] += L
                    evs = [e for e in o.events if type(e).__name__ == "DataReceived"]
                    if len(evs) != 1 or evs[0].flow_controlled_length != L:
                        bad("data-event", "DATA fcl=%d reported as %s" % (L, [H.event_brief(e) for e in o.events]))
                self._absorb_wu(st, o, bad)
                out = "data-ok" + ("-reset-stream" if on_reset else "")
            else:
                gos = [f for f in o.frames if f.type == wire.GOAWAY]
                if not (o.kind == "raise" and o.exc_name == "FlowControlError" and len(gos) == 1 and
                        gos[0].f["code"] == wire.FLOW_CONTROL_ERROR):
                    bad("window-overrun-accepted", "DATA fcl=%d on stream %d overruns advertised window (conn=%d stream=%s) but -> %s" % (
                        L, sid, st.Ac, st.As.get(sid), o.brief()), on_reset_stream=on_reset,
                        conn_limited=(on_reset or st.Ac < st.As[sid]), got=o.exc_name or "accepted")
                st.dead = True
                return Step("data-overrun", viols, prune=True)
        elif parts[0] == "incr":
            sid = int(parts[1])
            cur = st.Ac if sid == 0 else st.As[sid]
            inc = {"1": 1, "7": 7, "max": MAXW - cur, "over": MAXW - cur + 1}[parts[2]]
            if not (1 <= inc <= MAXW):
                return Step("incr-not-expressible", viols, prune=True)
            before = self._accessors(st)
            o = h.api("increment_flow_control_window", inc, stream_id=(None if sid == 0 else sid))
            if o.kind == "raise":
                after = self._accessors(st)
                if o.raw:
                    bad("failed-call-emitted", "increment_flow_control_window(%d, %r) raised %s but emitted %s" % (inc, sid, o.exc_name, o.brief()),
                        call="increment_flow_control_window")
                if after != before:
                    bad("failed-call-changed-window", "increment_flow_control_window(%d, stream %d) raised %s but window accessors changed %r -> %r" % (
                        inc, sid, o.exc_name, before, after), call="increment_flow_control_window", exc=o.exc_name)
                if cur + inc <= MAXW and not st.closed:
                    bad("valid-increment-refused", "increment %d on window %d refused: %s" % (inc, cur, o.brief()), exc=o.exc_name)
                out = "incr-raise"
            else:
                wus = [f for f in o.frames if f.type == wire.WINDOW_UPDATE]
                if len(o.frames) != 1 or len(wus) != 1 or wus[0].sid != sid or wus[0].f["inc"] != inc:
                    bad("wrong-window-update", "increment_flow_control_window(%d, %d) emitted %s" % (inc, sid, o.brief()))
                self._absorb_wu(st, o, bad)
                if cur + inc > MAXW:
                    # the library advertised a window above 2^31-1 on the application's request: unspecified region
                    st.dead = True
                    return Step("incr-overflow-accepted(unspecified)", viols, prune=True)
                out = "incr-ok"
        elif parts[0] == "ack":
            sid = int(parts[1])
            known = sid in st.As
            outstanding = st.unacked.get(sid, 0)
            n = {"0": 0, "all": outstanding, "over": outstanding + 5, "neg": -1, "5": 5, "big": 65535}[parts[2]]
            before = self._accessors(st)
            o = h.api("acknowledge_received_data", n, sid)
            if o.kind == "raise":
                after = self._accessors(st)
                if o.raw:
                    bad("failed-call-emitted", "acknowledge_received_data(%d, %d) raised %s but emitted %s" % (n, sid, o.exc_name, o.brief()),
                        call="acknowledge_received_data")
                if after != before:
                    bad("failed-call-changed-window", "acknowledge_received_data(%d, %d) raised %s but window accessors changed %r -> %r" % (
                        n, sid, o.exc_name, before, after), call="acknowledge_received_data", exc=o.exc_name)
                if known and n >= 0 and not st.closed:
                    bad("valid-ack-refused", "acknowledge_received_data(%d, %d) refused: %s" % (n, sid, o.brief()), exc=o.exc_name)
                # a hidden credit would show up at the next DATA decided by the unchanged model
                out = "ack-raise"
            else:
                if known:
                    st.unacked[sid] = max(0, outstanding - n)
                self._absorb_wu(st, o, bad)
                out = "ack-ok"
        elif parts[0] == "reset":
            sid = int(parts[1])
            o = h.api("reset_stream", sid)
            if o.kind != "ok":
                bad("reset-refused", "reset_stream(%d) -> %s" % (sid, o.brief()))
            st.gone[sid] = st.As.pop(sid)
            st.unacked.pop(sid, None)
            st.reset.add(sid)
            st.resv.discard(sid)
        elif parts[0] == "iwsbad":
            before = self._accessors(st)
            o = h.api("update_settings", {wire.S_INITIAL_WINDOW_SIZE: int(parts[1]), wire.S_MAX_FRAME_SIZE: 1})
            if o.kind != "raise":
                bad("invalid-update-accepted", "update_settings with MAX_FRAME_SIZE=1 -> %s" % o.brief())
                st.dead = True
                return Step("iwsbad-accepted", viols, prune=True)
            if o.raw:
                bad("failed-call-emitted", "update_settings raised %s but emitted %s" % (o.exc_name, o.brief()), call="update_settings")
            if self._accessors(st) != before:
                bad("failed-call-changed-window", "update_settings raised %s but window accessors changed" % o.exc_name, call="update_settings",
                    exc=o.exc_name)
            # nothing was sent and nothing is pending: a value it smuggled in shows at the next acknowledgement
            out = "iwsbad-raise"
        elif parts[0] == "iws":
            v = int(parts[1])
            o = h.api("update_settings", {wire.S_INITIAL_WINDOW_SIZE: v})
            if o.kind != "ok":
                bad("update-settings-refused", "update_settings(IWS=%d) -> %s" % (v, o.brief()))
            else:
                st.pending.append(v)
        elif lab == "rxack":
            v = st.pending.pop(0)
            delta = v - st.acked
            if any(w + delta > MAXW for w in list(st.As.values()) + list(st.gone.values())):
                # the application itself pushed its advertised window past 2^31-1: unspecified region
                st.dead = True
                return Step("rxack-local-overflow(unspecified)", viols, prune=True)
            o = h.rx([wire.settings([], ack=True)])
            if o.kind != "ok":
                bad("settings-ack-rejected", "SETTINGS ACK -> %s" % o.brief())
                st.dead = True
                return Step("rxack-rejected", viols, prune=True)
            for s in st.As:
                st.As[s] += delta
            for s in st.gone:
                st.gone[s] += delta
            st.acked = v
            self._absorb_wu(st, o, bad)
            out = "rxack-" + ("down" if delta < 0 else "up" if delta > 0 else "same")
        else:
            raise ValueError(lab)
        # ---- invariant: accessors equal the advertised windows
        acc = self._accessors(st)
        if acc["conn"] != st.Ac:
            bad("conn-window-accessor-mismatch", "after %s: inbound_flow_control_window=%r, advertised (from the wire) %d" % (
                lab, acc["conn"], st.Ac), after=parts[0])
        for sid in st.As:
            want = min(st.Ac, st.As[sid])
            if acc[sid] != want:
                bad("window-accessor-mismatch", "after %s: remote_flow_control_window(%d)=%r, advertised min(conn %d, stream %d)=%d" % (
                    lab, sid, acc[sid], st.Ac, st.As[sid], want), after=parts[0])
        if parts[0] == "data" and parts[3] == "es" and self.client and int(parts[1]) % 2 == 0 and int(parts[1]) in st.As:
            # a pushed stream is over once the peer ends it (our side never was open): checked one last time above, then
            # nothing more is demanded of its accessors or of calls on it
            # (its window lives on in the stream table until the library sweeps it, and still takes part in the
            # unspecified-region test for a local INITIAL_WINDOW_SIZE change, like the windows of streams we reset)
            st.gone[int(parts[1])] = st.As.pop(int(parts[1]))
            st.unacked.pop(int(parts[1]), None)
        if viols:
            st.dead = True
        return Step(out, viols)


def make_spec(key):
    return Spec(key)


def run(ctx):
    for role in ("server", "client"):
        ctx.explore(("c04", role, ctx.tier), time_budget=None if ctx.tier == "quick" else 300)
