"""C27 - peer-controlled retained state stays bounded.

Three bounded-exhaustive layers on the real connection (both roles).

 (a) In every base state of the explored state set, each frame that does not
     open a stream - PRIORITY, WINDOW_UPDATE and RST_STREAM on idle / closed /
     forgotten / never-used ids, unknown frame types, ALTSVC - must leave the
     sizes of the stream table and of the closed-stream memory unchanged.
 (b) Loop bodies: EVERY sequence of 1..3 templates (peer frames with fresh
     ids - open a stream, open + END_STREAM, DATA, trailers, RST_STREAM,
     PUSH_PROMISE with a fresh promised id, response / RST_STREAM on the
     promised stream, PRIORITY on a fresh id, WINDOW_UPDATE / RST_STREAM on an
     old id - plus the replies a well-behaved application makes) is pumped N
     times on a connection whose closed-stream memory is capped at 8 (quick)
     or at the real 65536 (thorough, bodies that close streams, 200,000
     iterations).
 (c) CONTINUATION counts 63..66 and header lists of decoded size limit-1,
     limit, limit+1 for acknowledged MAX_HEADER_LIST_SIZE in {65536, 100,
     65537}.
 (d) After each of six connection errors (oversized frame, bad lengths,
     CONTINUATION flood, foreign frame inside a header block) 400 further
     chunks of four kinds keep arriving: the buffered input must not keep
     growing (measured after 200 and after 400 chunks).

Oracle: (a) sizes unchanged; (b) the closed-stream memory never exceeds its
cap, and for every body that keeps the connection alive and whose number of
live streams (RFC model) is the same after every iteration, the retained
measure (stream records + closed-stream memory + buffered input and output
bytes + HPACK table entries) is identical at iteration N/2 and N - no pump
grows state; (c) refused, with ENHANCE_YOUR_CALM for oversized lists.
"""
import itertools
import pickle

import hpack

from .. import corpus
from .. import harness as H
from .. import wire

PROPERTY = "C27"
TECHNIQUE = "bounded-exhaustive enumeration of loop bodies (all template sequences up to length 3) pumped on the real connection with a plateau oracle on retained state; plus per-state frame fan-out"
RULE = ("one evaluation = one frame delivered / one call made inside a pumped loop body, or one non-opening frame in layer (a); "
        "non-trivial = bodies that survive all iterations with constant live-stream count (plateau judged)")
ALPHABET = "server templates: open, open_es, data, data_es, trailers, rst, rst_old, wu_old, prio_fresh, respond_es, reset, ack; client templates: req_es, req, resp_es, resp, data_es, push, pushresp_es, rst_promised, reset_promised, rst, prio_fresh, wu_old"
BOUNDS = {"quick": "(b) all bodies of length <= 3, 300 iterations, cap 8; bodies of length <= 2, 100 iterations, cap 0; bodies of length <= 2, 300 iterations, every chunk ending inside a frame", "thorough": "(b) additionally the stream-closing bodies of length <= 2 pumped 200,000 times with the real cap"}
sb = H.stateless_block


class SmallCapConnection(H.h2.connection.H2Connection):
    MAX_CLOSED_STREAMS = 8


class ZeroCapConnection(H.h2.connection.H2Connection):
    MAX_CLOSED_STREAMS = 0          # legal: remember no closed stream at all


def table_breakdown(conn):
    """(reserved, closed, other) streams in the stream table (read-only)"""
    r = c = o = 0
    for s in conn.streams.values():
        if getattr(s, "reserved", False) or s.state_machine.state.name.startswith("RESERVED"):
            r += 1
        elif s.closed:
            c += 1
        else:
            o += 1
    return (r, c, o)


def measure(conn):
    return (len(conn.streams), len(conn._closed_streams), len(conn.incoming_buffer.data),
            len(conn.incoming_buffer._headers_buffer), len(conn._data_to_send),
            len(conn.decoder.header_table.dynamic_entries), len(conn.encoder.header_table.dynamic_entries))


SERVER_T = ["open", "open_es", "data", "data_es", "trailers", "rst", "rst_old", "wu_old", "prio_fresh", "respond_es", "reset", "ack"]
CLIENT_T = ["req_es", "req", "resp_es", "resp", "data_es", "push", "pushresp_es", "rst_promised", "reset_promised", "rst",
            "prio_fresh", "wu_old"]


FILLER = wire.ping(b"unalign!").serialize()


class Pump:
    def __init__(self, client, cap_small, unaligned=False):
        # unaligned: every chunk handed to receive_data ends five bytes into a (PING) frame, whose other twelve bytes open
        # the next chunk - no call ever ends on a frame boundary
        self.unaligned = unaligned
        self.carry = b""
        cfg = H.h2.config.H2Configuration(client_side=client)
        self.client = client
        self.conn = (ZeroCapConnection if cap_small == "zero" else SmallCapConnection if cap_small else H.h2.connection.H2Connection)(config=cfg)
        if client:
            H.handshake_client(self.conn)
        else:
            H.handshake_server(self.conn)
        self.next_peer = 2 if client else 1
        self.next_local = 1
        self.latest = None           # latest stream the peer can send on / we can act on
        self.latest_promised = None
        self.old = None
        self.live = 0                # RFC-model live (open/half-closed/reserved) streams, approximated by template effects
        self.unacked = 0
        self.dead = None

    def rx(self, fr):
        data = fr.serialize()
        if self.unaligned:
            data, self.carry = self.carry + data + FILLER[:5], FILLER[5:]
        try:
            self.conn.receive_data(data)
        except H.ProtocolError as e:
            self.dead = "conn-error:%s" % type(e).__name__
        self.conn.data_to_send()

    def call(self, method, *a, **kw):
        try:
            getattr(self.conn, method)(*a, **kw)
        except H.H2Error:
            pass
        self.conn.data_to_send()

    def step(self, t):
        c = self.client
        if t in ("open", "open_es"):
            sid = self.next_peer
            self.next_peer += 2
            self.old = self.latest or self.old
            self.latest = sid
            self.rx(wire.headers(sid, sb(H.REQ_POST), es=(t == "open_es")))
        elif t in ("req", "req_es"):
            sid = self.next_local
            self.next_local += 2
            self.old = self.latest or self.old
            self.latest = sid
            self.call("send_headers", sid, H.ni(H.REQ_POST), end_stream=(t == "req_es"))
        elif t in ("data", "data_es"):
            if self.latest:
                self.rx(wire.data(self.latest, b"abc", es=(t == "data_es")))
                self.unacked += 3
        elif t == "trailers":
            if self.latest:
                self.rx(wire.headers(self.latest, sb(H.TRAILERS), es=True))
        elif t in ("resp", "resp_es"):
            if self.latest:
                self.rx(wire.headers(self.latest, sb(H.RESP), es=(t == "resp_es")))
        elif t == "rst":
            if self.latest:
                self.rx(wire.rst_stream(self.latest, 8))
        elif t == "rst_old":
            if self.old:
                self.rx(wire.rst_stream(self.old, 8))
        elif t == "wu_old":
            if self.old:
                self.rx(wire.window_update(self.old, 1))
        elif t == "prio_fresh":
            self.rx(wire.priority((self.next_peer + 100000) | 1 if not c else (self.next_peer + 100000) & ~1 or 2, 0, 5, False))
        elif t == "respond_es":
            if self.latest:
                self.call("send_headers", self.latest, H.ni(H.RESP), end_stream=True)
        elif t == "reset":
            if self.latest:
                self.call("reset_stream", self.latest)
        elif t == "ack":
            if self.latest and self.unacked:
                self.call("acknowledge_received_data", self.unacked, self.latest)
                self.unacked = 0
        elif t == "push":
            if self.latest:
                p = self.next_peer
                self.next_peer += 2
                self.latest_promised = p
                self.rx(wire.push_promise(self.latest, p, sb(H.REQ)))
        elif t == "pushresp_es":
            if self.latest_promised:
                self.rx(wire.headers(self.latest_promised, sb(H.RESP), es=True))
        elif t == "rst_promised":
            if self.latest_promised:
                self.rx(wire.rst_stream(self.latest_promised, 8))
        elif t == "reset_promised":
            if self.latest_promised:
                self.call("reset_stream", self.latest_promised)
        else:
            raise ValueError(t)


def model_live(conn):
    """live streams according to the RFC notion, read from the public counters on a clone
    plus reserved ones counted from the table (read-only)."""
    c = pickle.loads(pickle.dumps(conn))
    return c.open_inbound_streams + c.open_outbound_streams


def job_bodies(job):
    client, bodies, N, small = job["client"], job["bodies"], job["N"], job["small"]
    cap = 0 if small == "zero" else 8 if small else 65536
    viols = {}
    outcomes = {}
    n = nt = 0
    samples = []
    for body in bodies:
        if N > 1000:
            # long pumps only for bodies that a 600-iteration pump finds alive, with a constant number of live streams and
            # on a plateau: a table that grows (the known reserved-stream finding, bodies that open without closing)
            # makes every step linear in its size, 200,000 iterations quadratic, and is reported by the short pump already
            pre = job_bodies({"client": client, "bodies": [body], "N": 600, "small": small, "ignore_closed_memory": True})
            n += pre["evaluations"]
            if pre["violations"] or "pump:survived-plateau-judged" not in pre["outcomes"]:
                for v in pre["violations"]:
                    viols.setdefault(repr(v["sig"]), v)
                outcomes["long-pump-skipped"] = outcomes.get("long-pump-skipped", 0) + 1
                continue
        p = Pump(client, small, unaligned=bool(job.get("unaligned")))
        # prelude: one long-lived stream, so that bodies without an opening template have something to act on
        p.step("req" if client else "open")
        half = None
        live_seq = []
        overflow = None
        growth_trace = []
        for it in range(N):
            for t in body:
                p.step(t)
                n += 1
                if p.dead:
                    break
            if p.dead:
                break
            if len(p.conn._closed_streams) > cap:
                overflow = (it, len(p.conn._closed_streams))
                break
            if it in (N // 4, N // 2 - 1, N - 1) or it < 3:
                live_seq.append(model_live(p.conn))
            if it == N // 2 - 1:
                half = measure(p.conn)
                half_bd = table_breakdown(p.conn)
        case = {"client": client, "body": list(body), "N": N, "small": small, "unaligned": bool(job.get("unaligned"))}
        key = "conn-error" if p.dead else "survived"
        if overflow:
            s = {"kind": "closed-stream-memory-above-cap", "role": "client" if client else "server"}
            viols.setdefault(repr(s), {"kind": s["kind"], "sig": s, "case": case,
                                       "msg": "body %r: closed-stream memory holds %d entries at iteration %d, cap %d" % (body, overflow[1], overflow[0], cap)})
        if not p.dead and not overflow:
            end = measure(p.conn)
            constant_live = len(set(live_seq)) == 1
            if constant_live:
                nt += 1
                key = "survived-plateau-judged"
                if job.get("ignore_closed_memory"):
                    # (pre-check of a long pump with the real cap: the closed-stream memory may still be filling up)
                    end, half = end[:1] + end[2:], half[:1] + half[2:]
                if end != half:
                    fields = ["streams", "closed_streams", "input_buffer", "header_frames", "output_buffer", "decoder_table", "encoder_table"]
                    grew = [f for f, a, b in zip(fields, half, end) if b > a]
                    bd = table_breakdown(p.conn)
                    kinds = [nm for nm, a, b in zip(("reserved-streams", "closed-streams-in-table", "open-streams"), half_bd, bd) if b > a]
                    s = {"kind": "retained-state-grows", "role": "client" if client else "server", "what": ",".join(grew) or "changed",
                         "stream_kind": ",".join(kinds)}
                    k = repr(s)
                    if k not in viols or len(viols[k]["case"]["body"]) > len(body):
                        viols[k] = {"kind": s["kind"], "sig": s, "case": case,
                                    "msg": "pumping %r %d times: retained measure %r at iteration %d, %r at %d (live streams constant at %d)" % (
                                        body, N, dict(zip(fields, half)), N // 2, dict(zip(fields, end)), N, live_seq[0])}
            else:
                key = "survived-live-count-varies"
        outcomes[key] = outcomes.get(key, 0) + 1
        if len(samples) < 1 and len(body) == 3:
            samples.append({"layer": "pump", "role": "client" if client else "server", "body": list(body), "iterations": N,
                            "outcome": key})
    return {"evaluations": n, "outcomes": {"pump:" + k: v for k, v in outcomes.items()}, "nontrivial": nt,
            "violations": list(viols.values()), "samples": samples}


def job_static(job):
    """layer (a) and (c)"""
    client = job["client"]
    viols = {}
    outcomes = {}
    n = 0

    def bad(kind, msg, case, **sig):
        s = {"kind": kind, "role": "client" if client else "server"}
        s.update(sig)
        viols.setdefault(repr(sorted(s.items())), {"kind": kind, "sig": s, "msg": msg, "case": case})

    states = [x for x in (corpus.CLIENT_STATES if client else corpus.SERVER_STATES) if not x.startswith("closed")]
    for state in states:
        blob = corpus.state_blob(client, state)
        pre = wire.PREFACE if (state == "fresh" and not client) else (wire.PREFACE[10:] if state == "preface-half" else b"")
        if state == "mid-block":
            continue
        for sid in (1, 2, 3, 5, 7, 101, 102, 2 ** 31 - 1):
            for name, fr in (("PRIORITY", wire.priority(sid, 0, 5, False)), ("WINDOW_UPDATE", wire.window_update(sid, 1)),
                             ("RST_STREAM", wire.rst_stream(sid, 8)), ("UNKNOWN", wire.raw(0x42, 0, sid, b"xyz")),
                             ("ALTSVC", wire.altsvc(sid, b"", b"f")), ("ALTSVC0", wire.altsvc(0, b"o.example", b"f"))):
                conn = pickle.loads(blob)
                before = (len(conn.streams), len(conn._closed_streams))
                known = sid in conn.streams
                o = H.recv(conn, pre + fr.serialize())
                n += 1
                after = (len(conn.streams), len(conn._closed_streams))
                outcomes["static:" + name + ":" + o.kind] = outcomes.get("static:" + name + ":" + o.kind, 0) + 1
                if after[0] > before[0] or (after[1] > before[1] and not known):
                    bad("non-opening-frame-allocated-state", "%s on stream %d in state %s: stream table / closed memory %r -> %r" % (
                        name, sid, state, before, after), {"layer": "static", "client": client}, frame=name)
    # (a') closed connections: frames that would open a stream are refused - and allocate nothing either
    for state in [x for x in (corpus.CLIENT_STATES if client else corpus.SERVER_STATES) if x.startswith("closed")] + ["closed-by-us"]:
        if state == "closed-by-us":
            conn = pickle.loads(corpus.state_blob(client, "open"))
            conn.close_connection()
            conn.data_to_send()
        else:
            conn = pickle.loads(corpus.state_blob(client, state))
        before = (len(conn.streams), len(conn._closed_streams))
        for i in range(40):
            sid = (2 if client else 1) + 2 * (i + 10)
            fr = wire.push_promise(1, sid, sb(H.REQ)) if client else wire.headers(sid, sb(H.REQ))
            try:
                conn.receive_data(fr.serialize())
            except Exception:  # noqa: BLE001 - refused, as it must be (C19)
                pass
            n += 1
        after = (len(conn.streams), len(conn._closed_streams))
        outcomes["static:opening-frames-after-close:" + state] = 1
        if after[0] > before[0] or after[1] > before[1] + 1:
            bad("non-opening-frame-allocated-state", "40 stream-opening frames on a closed connection (%s): stream table / closed memory %r -> %r" % (
                state, before, after), {"layer": "static", "client": client}, frame="HEADERS-after-close")
    # (c) CONTINUATION counts
    st = "open" if client else "handshaken"
    blob = corpus.state_blob(client, st)
    base = H.RESP if client else H.REQ
    for cnt in (63, 64, 65, 66):
        frs = [wire.headers(1, sb(base), eh=False)] + [wire.continuation(1, b"", eh=(i == cnt - 1)) for i in range(cnt)]
        conn = pickle.loads(blob)
        o = H.recv(conn, wire.ser(frs))
        n += 1
        outcomes["continuations:%d:%s" % (cnt, o.kind)] = 1
        # HEADERS + cnt CONTINUATIONs = cnt+1 frames in the block; the backlog limit is 64 frames
        if cnt + 1 > 64 and o.kind != "raise":
            bad("continuation-flood-accepted", "header block of %d frames accepted" % (cnt + 1), {"layer": "static", "client": client}, frames=cnt + 1)
        if cnt + 1 <= 64 and o.kind == "raise":
            bad("continuation-limit-too-low", "header block of %d frames refused: %s" % (cnt + 1, o.brief()), {"layer": "static", "client": client},
                frames=cnt + 1)
        if o.kind == "raise" and len(conn.incoming_buffer._headers_buffer) > 65:
            bad("continuation-buffer-kept", "buffered %d frames" % len(conn.incoming_buffer._headers_buffer), {"layer": "static", "client": client})
    # (d) after a connection error: whatever the peer goes on sending (and a careless application goes on feeding) is not kept
    for state in ("open", "handshaken"):
        for errname, errbytes in (
                ("oversized-frame", wire.raw(wire.DATA, 0, 1, b"x" * 20000).serialize()),
                ("bad-ping-length", wire.raw(wire.PING, 0, 0, b"short").serialize()),
                ("zero-window-update", wire.raw(wire.WINDOW_UPDATE, 0, 0, b"\0\0\0\0").serialize()),
                ("settings-ack-with-payload", wire.raw(wire.SETTINGS, 1, 0, b"\0\3\0\0\0\1").serialize()),
                ("continuation-flood", wire.ser([wire.headers(1 if client is False else 1, sb(base), eh=False)] + [wire.continuation(1, b"", eh=False) for _ in range(70)])),
                ("foreign-frame-in-block", wire.ser([wire.headers(1, sb(base), eh=False), wire.ping(b"12345678")]))):
            for follow_name, chunk in (("pings", wire.ping(b"abcdefgh").serialize() * 50),
                                       ("continuations", wire.continuation(1, b"z" * 100, eh=False).serialize() * 10),
                                       ("zeros", b"\0" * 1000),
                                       ("small-frames-cut", (wire.ping(b"abcdefgh").serialize() * 50)[:-3])):
                conn = pickle.loads(corpus.state_blob(client, state))
                try:
                    conn.receive_data(errbytes)
                    outcomes["after-error:%s:not-an-error" % errname] = 1
                    continue
                except Exception:  # noqa: BLE001 - the error itself is judged by C17 / C18
                    pass
                sizes = []
                for i in range(400):
                    try:
                        conn.receive_data(chunk)
                    except Exception:  # noqa: BLE001
                        pass
                    conn.data_to_send()
                    n += 1
                    if i in (199, 399):
                        sizes.append(sum(measure(conn)[2:5]) + sum(len(getattr(f, "data", b"")) for f in conn.incoming_buffer._headers_buffer))
                outcomes["after-error:%s:%s" % (errname, follow_name)] = 1
                if sizes[1] > sizes[0] and sizes[1] > 2 * len(chunk) + 20009:
                    bad("input-retained-after-connection-error",
                        "after the connection error '%s' in state %s, input that keeps arriving (%s) is retained: %d bytes buffered after 200 chunks, "
                        "%d after 400" % (errname, state, follow_name, sizes[0], sizes[1]), {"layer": "after-error", "client": client},
                        error=errname)
    # (c) header list size limits
    for limit, later in ((65536, None), (100, None), (65537, None), (200, 60000), (60000, 200), (300, "with-table-size"),
                         (65536, "raised-and-restored"), (65536, "refused-larger-first")):
        h = H.Solo(client)
        h.rx([wire.settings([], ack=True)])
        if later == "raised-and-restored":
            # raised to 200000 and set back to the value in force while the first change is still in flight; both acknowledged
            h.api("update_settings", {wire.S_MAX_HEADER_LIST_SIZE: 200000})
            h.api("update_settings", {wire.S_MAX_HEADER_LIST_SIZE: 65536})
            h.rx([wire.settings([], ack=True)])
            h.rx([wire.settings([], ack=True)])
            later = None
        elif later == "refused-larger-first":
            # update_settings({MAX_HEADER_LIST_SIZE: 2^20, MAX_FRAME_SIZE: 1}) is refused as a whole; an unrelated change is
            # sent and acknowledged afterwards: the limit the peer was told (65536) is still the one in force
            o = h.api("update_settings", {wire.S_MAX_HEADER_LIST_SIZE: 2 ** 20, wire.S_MAX_FRAME_SIZE: 1})
            assert o.kind == "raise" and not o.raw, o.brief()
            h.api("update_settings", {wire.S_MAX_CONCURRENT_STREAMS: 50})
            h.rx([wire.settings([], ack=True)])
            later = None
        elif later == "with-table-size":
            # the limit changes together with HEADER_TABLE_SIZE in one SETTINGS frame
            h.api("update_settings", {wire.S_HEADER_TABLE_SIZE: 8192, wire.S_MAX_HEADER_LIST_SIZE: limit})
            later = None
            h.rx([wire.settings([], ack=True)])
        elif limit != 65536:
            h.api("update_settings", {wire.S_MAX_HEADER_LIST_SIZE: limit})
            if later is not None:
                # a second change is already in flight when the first one is acknowledged: the ACKNOWLEDGED value binds
                h.api("update_settings", {wire.S_MAX_HEADER_LIST_SIZE: later})
            h.rx([wire.settings([], ack=True)])
        if client:
            h.api("send_headers", 1, H.ni(H.REQ_POST))
        hblob = pickle.dumps(h.conn)
        fixed = sum(len(a) + len(b) + 32 for a, b in base) + len(b"x-fill") + 32
        for delta in (-1, 0, 1):
            vlen = limit + delta - fixed
            if vlen < 0:
                continue
            hdrs = base + [(b"x-fill", b"v" * vlen)]
            size = sum(len(a) + len(b) + 32 for a, b in hdrs)
            blk = sb(hdrs)
            frs = []
            chunks = [blk[i:i + 16000] for i in range(0, len(blk), 16000)]
            frs.append(wire.headers(1, chunks[0], eh=(len(chunks) == 1)))
            for i, ch in enumerate(chunks[1:]):
                frs.append(wire.continuation(1, ch, eh=(i == len(chunks) - 2)))
            conn = pickle.loads(hblob)
            o = H.recv(conn, wire.ser(frs))
            n += 1
            outcomes["header-list:%d%+d:%s" % (limit, delta, o.kind)] = 1
            if size > limit:
                if not (o.kind == "raise" and o.is_proto and int(o.code) == wire.ENHANCE_YOUR_CALM):
                    bad("oversized-header-list-accepted", "decoded list of %d bytes with MAX_HEADER_LIST_SIZE=%d acknowledged -> %s" % (size, limit, o.brief()),
                        {"layer": "static", "client": client}, limit=limit, got=(wire.err_name(int(o.code)) if o.kind == "raise" and o.is_proto else o.kind))
            elif o.kind != "ok":
                bad("header-list-within-limit-refused", "decoded list of %d bytes with MAX_HEADER_LIST_SIZE=%d -> %s" % (size, limit, o.brief()),
                    {"layer": "static", "client": client}, limit=limit)
    return {"evaluations": n, "outcomes": outcomes, "nontrivial": n, "violations": list(viols.values()),
            "samples": [{"layer": "static", "role": "client" if client else "server"}]}


def dispatch(job):
    return globals()["job_" + job["fam"]](job)


def replay(rec):
    case = rec.get("case", {})
    if case.get("layer") in ("static", "after-error"):
        return job_static({"client": case["client"]})["violations"]
    return job_bodies({"client": case["client"], "bodies": [tuple(case["body"])], "N": case["N"], "small": case["small"],
                       "unaligned": case.get("unaligned", False)})["violations"]


def make_spec(key):
    raise NotImplementedError


def run(ctx):
    quick = ctx.tier == "quick"
    jobs = []
    nb = 0
    for client in (False, True):
        T = CLIENT_T if client else SERVER_T
        bodies = [b for k in (1, 2, 3) for b in itertools.product(T, repeat=k)]
        nb += len(bodies)
        for i in range(0, len(bodies), 40):
            jobs.append({"fam": "bodies", "client": client, "bodies": bodies[i:i + 40], "N": 300, "small": True})
        short = [b for b in bodies if len(b) <= 2]
        for i in range(0, len(short), 40):
            jobs.append({"fam": "bodies", "client": client, "bodies": short[i:i + 40], "N": 100, "small": "zero"})
        for i in range(0, len(short), 40):
            jobs.append({"fam": "bodies", "client": client, "bodies": short[i:i + 40], "N": 300, "small": True, "unaligned": True})
        jobs.append({"fam": "static", "client": client})
        if not quick:
            closing = [b for k in (1, 2) for b in itertools.product(T, repeat=k)
                       if any(t in ("open_es", "req_es", "rst", "reset", "push") for t in b)]
            for b in closing:
                jobs.append({"fam": "bodies", "client": client, "bodies": [b], "N": 200000, "small": False})
    jobs.sort(key=lambda j: -(j.get("N", 0) * len(j.get("bodies", []))))
    ctx.fanout("c27-%s" % ctx.tier, jobs, "dispatch", domain="%d loop bodies + static layers" % nb)
    ctx.fanouts[-1]["states"] = len(corpus.CLIENT_STATES) + len(corpus.SERVER_STATES)
