"""C28 - output is a deterministic function of the call sequence.

Exhaustive enumeration of all call/receive programs over a fixed alphabet up
to a depth bound (the full program tree, error paths included), executed on
the real connection in K separate interpreter processes with different
PYTHONHASHSEED values.  Each process emits, per program (tree node), a digest
of (output bytes, event reprs, exception type + args + message, public
accessor values); the master compares the digests program by program.

The program dimension is exhaustive within the bound.  The hash-seed
dimension (2^32 values) cannot be exhausted: it is a fixed sample of K seeds,
the one place where a quantifier of the property list is only partly
enumerable.
"""
import hashlib
import json
import os
import pickle
import subprocess
import sys

PROPERTY = "C28"
TECHNIQUE = "exhaustive enumeration of the program tree to a depth bound on the real connection, replicated in separate interpreter processes with different hash seeds and compared node by node"
RULE = ("one evaluation = one program (path in the call tree) executed in one process; non-trivial = the program's last step raised or "
        "returned events; every node is compared across all seeds")
BOUNDS = {"quick": "all programs of depth <= 3 over the alphabet, both roles, 6 hash seeds + one process with skewed clocks + one with a deep caller stack; isolation layer: programs of depth <= 2, two passes in one process",
          "thorough": "all programs of depth <= 4, both roles, 6 hash seeds"}
ASSUMPTIONS = ["one more process runs with hash seed 0 and clocks (time.time / monotonic / perf_counter) that advance an hour per reading",
               "one more process runs every program 500 frames down the interpreter stack (recursion limit 1000)",
               "isolation layer: every program is run a third time with received chunks handed over in a bytearray that is overwritten after the call",
               "isolation layer: every program is also run as the first thing a process does (a child forked before any connection existed) and compared with its run after all the others",
               "hash seeds are sampled (K of 2^32): 0,1,2,3 and two derived from VERIF_SEED; wall-clock and process identity vary freely between the K runs"]


def alphabet(client):
    from .. import harness as H
    from .. import wire
    sb = H.stateless_block
    A = []

    def call(name, method, *args, **kw):
        A.append((name, ("call", method, args, kw)))

    def rx(name, *frames):
        A.append((name, ("rx", b"".join(f if isinstance(f, bytes) else f.serialize() for f in frames))))

    three = {4: 70000, 3: 7, 1: 100}
    call("initiate", "initiate_connection")
    call("settings3", "update_settings", three)
    call("settings-bad", "update_settings", {3: 1, 2: 5, 5: 1})
    call("ping", "ping", b"12345678")
    call("close", "close_connection", 0, b"bye")
    call("ack1", "acknowledge_received_data", 3, 1)
    call("incr", "increment_flow_control_window", 10)
    call("rst1", "reset_stream", 1, 8)
    call("data1", "send_data", 1, b"abc", end_stream=False)
    call("end1", "end_stream", 1)
    from hpack import HeaderTuple, NeverIndexedHeaderTuple
    if client:
        call("req1", "send_headers", 1, H.REQ + [(b"cookie", b"a=b"), (b"x-a", b"1"), (b"x-b", b"2")])
        # the same fields handed over as the hpack tuple classes (equal to the plain tuples, different on the wire)
        call("req1-ni", "send_headers", 1, H.REQ + [(b"cookie", b"a=b"), NeverIndexedHeaderTuple(b"x-a", b"1"), HeaderTuple(b"x-b", b"2")])
        rx("rx-resp-2cl", wire.headers(1, sb(H.RESP + [(b"content-length", b"3"), (b"content-length", b"5")])))
        # a complete 204 response that announces a body it does not have
        rx("rx-resp-204-cl-es", wire.headers(1, sb([(b":status", b"204"), (b"content-length", b"5")]), es=True))
        # a request naming three different hosts (:authority and two Host fields)
        call("req1-two-hosts", "send_headers", 1, H.REQ + [(b"host", b"a.example"), (b"host", b"b.example")])
        rx("rx-data1-es", wire.data(1, b"abc", es=True))
        call("req1-noauth", "send_headers", 1, [(b":method", b"GET"), (b":scheme", b"https"), (b":path", b"/")])
        call("req3-resp-pseudo", "send_headers", 3, H.REQ + [(b":status", b"200")])
        call("trailers-2pseudo", "send_headers", 1, [(b":status", b"200"), (b":path", b"/"), (b":method", b"GET")], end_stream=True)
        call("prio", "prioritize", 1, 7, 3, True)
        rx("rx-settings3", wire.settings([(4, 100), (3, 2), (1, 0), (0x99, 5)]))
        rx("rx-resp", wire.headers(1, sb(H.RESP + [(b"set-cookie", b"a"), (b"x-a", b"1")])))
        rx("rx-resp-reqpseudo", wire.headers(1, sb(H.RESP + [(b":path", b"/"), (b":method", b"GET"), (b":scheme", b"https")])))
        rx("rx-trailers-pseudo", wire.headers(1, sb([(b":status", b"200"), (b":path", b"/"), (b":authority", b"a")]), es=True))
        rx("rx-push", wire.push_promise(1, 2, sb(H.REQ)))
        rx("rx-altsvc", wire.altsvc(1, b"", b"h2=\":443\""))
    else:
        call("resp1", "send_headers", 1, H.RESP + [(b"set-cookie", b"a"), (b"x-a", b"1")])
        call("resp1-ni", "send_headers", 1, H.RESP + [(b"set-cookie", b"a"), NeverIndexedHeaderTuple(b"x-a", b"1")])
        rx("rx-req1-2cl", wire.headers(1, sb(H.REQ_POST + [(b"content-length", b"3"), (b"content-length", b"5")])))
        rx("rx-req1-two-hosts", wire.headers(1, sb(H.REQ + [(b"host", b"a.example"), (b"host", b"b.example")])))
        rx("rx-data1-es", wire.data(1, b"abc", es=True))
        call("resp1-reqpseudo", "send_headers", 1, H.RESP + [(b":path", b"/"), (b":method", b"GET"), (b":scheme", b"https")])
        call("push", "push_stream", 1, 2, H.REQ)
        call("altsvc", "advertise_alternative_service", b"h2=\":443\"", b"example.com")
        rx("rx-preface+settings3", wire.PREFACE, wire.settings([(4, 100), (3, 2), (1, 0), (0x99, 5)]))
        rx("rx-req1", wire.headers(1, sb(H.REQ_POST + [(b"cookie", b"a=b"), (b"cookie", b"c=d"), (b"x-a", b"1")])))
        rx("rx-req3-resp-pseudo", wire.headers(3, sb(H.REQ + [(b":status", b"200")])))
        rx("rx-trailers-pseudo", wire.headers(1, sb([(b":status", b"200"), (b":path", b"/"), (b":authority", b"a")]), es=True))
        rx("rx-prio", wire.priority(1, 3, 9, True))
    # a header block left open, then frames that may not interrupt it (several flags set)
    rx("rx-headers-open-block", wire.headers(1, sb(H.REQ if not client else H.RESP)[:4], eh=False))
    rx("rx-data1-padded-es", wire.data(1, b"ab", es=True, pad=1))
    rx("rx-ping-ack", wire.ping(b"abcdefgh", ack=True))
    # one step that leaves stream 1 closed by OUR END_STREAM (the peer ended first) and still in the stream table
    if client:
        A.append(("exchange1-we-end-last", ("seq", [("call", "send_headers", (1, H.REQ), {}),
                                                   ("rx", wire.headers(1, sb(H.RESP), es=True).serialize()),
                                                   ("call", "end_stream", (1,), {})])))
    else:
        A.append(("exchange1-we-end-last", ("seq", [("rx", wire.headers(1, sb(H.REQ), es=True).serialize()),
                                                   ("call", "send_headers", (1, H.RESP), {"end_stream": True})])))
    # a header block padded out with 600 empty CONTINUATION frames, in one chunk
    rx("rx-block-with-600-empty-continuations", wire.headers(1, sb(H.REQ if not client else H.RESP), eh=False),
       *([wire.continuation(1, b"", eh=False)] * 600 + [wire.continuation(1, b"", eh=True)]))
    # header blocks the HPACK decoder gives up on: an integer that runs off the end of the block, an index beyond the table
    rx("rx-headers-truncated-hpack-integer", wire.headers(1, b"\xff\xff"))
    rx("rx-headers-bad-hpack-index", wire.headers(1, b"\xfe"))
    # a frame that arrives in two pieces, the first shorter than a frame header
    rx("rx-ping-first-4-bytes", wire.ping(b"abcdefgh").serialize()[:4])
    rx("rx-ping-remaining-bytes", wire.ping(b"abcdefgh").serialize()[4:])
    rx("rx-ack", wire.settings([], ack=True))
    rx("rx-data1", wire.data(1, b"abc", pad=2))
    rx("rx-rst1", wire.rst_stream(1, 2))
    rx("rx-ping", wire.ping(b"abcdefgh"))
    rx("rx-wu", wire.window_update(0, 5), wire.window_update(1, 5))
    rx("rx-goaway", wire.goaway(1, 2, b"dbg"))
    rx("rx-unknown", wire.raw(0x42, 1, 1, b"xyz"))
    rx("rx-garbage", b"\x00\x00\x01\x08\x00\x00\x00\x00\x00\x00")
    return A


def _digest(*parts):
    h = hashlib.blake2b(digest_size=8)
    for p in parts:
        h.update(repr(p).encode("utf-8", "backslashreplace"))
        h.update(b"|")
    return h.hexdigest()


def _step(conn, act, mutable=False):
    """mutable: received bytes are handed over in a bytearray that the application overwrites as soon as receive_data has
    returned (a reused read buffer): nothing may depend on it afterwards"""
    if act[0] == "seq":
        parts = [_step(conn, a, mutable) for a in act[1]]
        return _digest(*[p[0] for p in parts]), any(p[1] for p in parts)
    ev_reprs = []
    exc = None
    ret = None
    try:
        if act[0] == "call":
            # fresh argument objects for every call, as an application builds them (and drops them afterwards)
            args = tuple(list(a) if isinstance(a, list) else (dict(a) if isinstance(a, dict) else a) for a in act[2])
            ret = getattr(conn, act[1])(*args, **act[3])
            del args
        else:
            data = act[1]
            if isinstance(data, (list, tuple)):
                data = b"".join(data)
            if mutable:
                buf = bytearray(data)
                try:
                    evs = conn.receive_data(buf)
                finally:
                    buf[:] = b"\xff" * len(buf)
            else:
                evs = conn.receive_data(data)
            ev_reprs = [repr(e) for e in evs]
            for e in evs:
                hs = getattr(e, "headers", None)
                if hs is not None:
                    ev_reprs.append(repr(list(hs)))
                cs = getattr(e, "changed_settings", None)
                if cs:
                    ev_reprs.append(repr([(int(k), v.original_value, v.new_value) for k, v in cs.items()]))
    except Exception as e:  # noqa: BLE001
        exc = (type(e).__name__, repr(e.args), str(e))
    out = conn.data_to_send()
    try:
        # read on a copy: reading the open-stream counters makes the library drop closed streams from its table, and the
        # programs must be able to reach states in which they are still there
        c2 = pickle.loads(pickle.dumps(conn))
        acc = (c2.open_outbound_streams, c2.open_inbound_streams, dict(c2.local_settings), dict(c2.remote_settings))
    except Exception as e:  # noqa: BLE001
        acc = repr(e)
    return _digest(out, ev_reprs, exc, repr(ret), repr(acc)), bool(exc or ev_reprs)


def _skew_clocks():
    """Every reading of a clock is an hour later than the one before: a library whose behaviour depends on elapsed
    wall-clock time behaves differently under this process than under the others."""
    import time
    state = {"t": 1.0e9}

    def tick(*a):
        state["t"] += 3600.0
        return state["t"]
    for name in ("time", "monotonic", "perf_counter"):
        setattr(time, name, tick)
    for name in ("time_ns", "monotonic_ns", "perf_counter_ns"):
        setattr(time, name, lambda *a: int(tick() * 1e9))


def worker_main(role, depth, first_shard, nshards, outpath):
    """Enumerate the program tree (DFS, clone per node); write path->digest."""
    if os.environ.get("C28_CLOCK"):
        _skew_clocks()
    sys.path.insert(0, os.path.dirname(os.path.dirname(os.path.dirname(os.path.abspath(__file__)))))
    from h2mc import harness as H
    client = role == "client"
    A = alphabet(client)
    res = {}
    nontrivial = 0
    root = pickle.dumps(H.new_conn(client))

    def rec(blob, path, d):
        nonlocal nontrivial
        for i, (name, act) in enumerate(A):
            if not path and (i % nshards) != first_shard:
                continue
            conn = pickle.loads(blob)
            dg, nt = _step(conn, act)
            p2 = path + (i,)
            res[",".join(map(str, p2))] = dg
            nontrivial += nt
            if d + 1 < depth:
                rec(pickle.dumps(conn), p2, d + 1)

    # (the 'deep' process: the same programs with 500 frames of caller below them - what a connection does must not depend
    # on how much interpreter stack its caller has left, within the few dozen frames the library itself needs)
    _deep(DEEP if os.environ.get("C28_DEEP") else 0, lambda: rec(root, (), 0))
    with open(outpath, "w") as fh:
        json.dump({"digests": res, "nontrivial": nontrivial, "hashseed": os.environ.get("PYTHONHASHSEED"),
                   "alphabet": [a[0] for a in A]}, fh)


def _fresh_default(client):
    """A connection built the way an application builds one, without anything of the harness in between: a client by
    the bare constructor, a server by passing its own configuration object."""
    import h2.config
    import h2.connection
    if client:
        return h2.connection.H2Connection()
    return h2.connection.H2Connection(config=h2.config.H2Configuration(client_side=False))


def isolation_main(role, depth, outpath, reverse=False):
    """Every program (the alphabet plus the documented run-time configuration switches) is run on a freshly constructed
    connection in a first pass and again in a second pass of the SAME process, after all the other programs have run on
    their own connections.  Two connections driven by the same calls must behave identically, whatever other
    connections of the process did in between: the two digests of a program must be equal."""
    sys.path.insert(0, os.path.dirname(os.path.dirname(os.path.dirname(os.path.abspath(__file__)))))
    client = role == "client"
    A = list(alphabet(client))
    A.append(("cfg-header-encoding", ("cfg", "header_encoding", "utf-8")))
    A.append(("cfg-no-outbound-normalisation", ("cfg", "normalize_outbound_headers", False)))
    A.append(("cfg-no-inbound-validation", ("cfg", "validate_inbound_headers", False)))

    mutable = [False]

    def step(conn, act):
        if act[0] == "cfg":
            setattr(conn.config, act[1], act[2])
            return _digest("cfg", act[1])
        return _step(conn, act, mutable[0])[0]

    def programs(d, prefix=()):
        for i in range(len(A)):
            p = prefix + (i,)
            yield p
            if d > 1:
                for q in programs(d - 1, p):
                    yield q

    def run_pass():
        out = {}
        progs = list(programs(depth))
        if reverse:
            progs.reverse()
        for prog in progs:
            conn = _fresh_default(client)
            dg = None
            for i in prog:
                dg = step(conn, A[i][1])
            out[prog] = dg
        return out

    first = run_pass()
    second = run_pass()
    diffs = [list(p) for p in sorted(first) if first[p] != second[p]]
    if not reverse:
        # the same programs with every received chunk handed over in a buffer that is overwritten right after the call
        mutable[0] = True
        third = run_pass()
        mutable[0] = False
        diffs += [list(p) for p in sorted(first) if first[p] != third[p] and list(p) not in diffs]
    with open(outpath, "w") as fh:
        json.dump({"programs": len(first), "differing": diffs[:50], "n_differing": len(diffs), "alphabet": [a[0] for a in A],
                   "digests": {",".join(map(str, p)): d for p, d in first.items()}}, fh)


def pristine_main(role, depth, shard, nshards, outpath, full):
    """Every selected program run as the FIRST thing a process does: in a child forked from this process, in which no
    connection has existed, no frame has been parsed and no header validated yet. (fork costs about 0.2 s in this sandbox:
    the quick tier takes the programs of length 1 and those of length 2 that begin by opening stream 1; the thorough tier all.)"""
    sys.path.insert(0, os.path.dirname(os.path.dirname(os.path.dirname(os.path.abspath(__file__)))))
    client = role == "client"
    A = list(alphabet(client))
    A.append(("cfg-header-encoding", ("cfg", "header_encoding", "utf-8")))
    A.append(("cfg-no-outbound-normalisation", ("cfg", "normalize_outbound_headers", False)))
    A.append(("cfg-no-inbound-validation", ("cfg", "validate_inbound_headers", False)))
    names = [a[0] for a in A]
    openers = [i for i, n in enumerate(names) if n in ("req1", "rx-req1", "exchange1-we-end-last", "rx-preface+settings3")]
    progs = [(i,) for i in range(len(A))]
    if depth > 1:
        progs += [(i, j) for i in (range(len(A)) if full else openers) for j in range(len(A))]
    progs = progs[shard::nshards]
    import h2.config        # noqa: F401 - imported (not used) here, so that the children do not each import it again
    import h2.connection    # noqa: F401

    def step(conn, act):
        if act[0] == "cfg":
            setattr(conn.config, act[1], act[2])
            return _digest("cfg", act[1])
        return _step(conn, act)[0]

    out = {}
    for prog in progs:
        r, w = os.pipe()
        pid = os.fork()
        if pid == 0:
            code = 1
            try:
                os.close(r)
                conn = _fresh_default(client)
                dg = None
                for i in prog:
                    dg = step(conn, A[i][1])
                os.write(w, str(dg).encode())
                code = 0
            finally:
                os._exit(code)
        os.close(w)
        buf = b""
        while True:
            chunk = os.read(r, 4096)
            if not chunk:
                break
            buf += chunk
        os.close(r)
        os.waitpid(pid, 0)
        out[",".join(map(str, prog))] = buf.decode()
    with open(outpath, "w") as fh:
        json.dump({"digests": out}, fh)


def _run_isolation(depth, roles, full_pristine=False):
    import tempfile
    here = os.path.dirname(os.path.dirname(os.path.dirname(os.path.abspath(__file__))))
    tmpd = tempfile.mkdtemp(prefix="c28iso-")
    procs = []
    for role in roles:
        for rev in (False, True):
            out = os.path.join(tmpd, "iso-%s-%d.json" % (role, rev))
            env = dict(os.environ, PYTHONHASHSEED="0", PYTHONPATH=here)
            code = ("import sys; sys.path.insert(0, %r); from h2mc import env; from h2mc.checks import c28; "
                    "c28.isolation_main(%r, %d, %r, %r)" % (here, role, depth, out, rev))
            procs.append((role, rev, out, subprocess.Popen([sys.executable, "-c", code], env=env)))
    NP = 6
    pprocs = []
    for role in roles:
        for sh in range(NP):
            out = os.path.join(tmpd, "pristine-%s-%d.json" % (role, sh))
            env = dict(os.environ, PYTHONHASHSEED="0", PYTHONPATH=here)
            code = ("import sys; sys.path.insert(0, %r); from h2mc import env; from h2mc.checks import c28; "
                    "c28.pristine_main(%r, %d, %d, %d, %r, %r)" % (here, role, depth, sh, NP, out, bool(full_pristine)))
            pprocs.append((role, out, subprocess.Popen([sys.executable, "-c", code], env=env)))
    res = {}
    for role, rev, out, p in procs:
        if p.wait() != 0:
            raise RuntimeError("c28 isolation worker failed (%s)" % role)
        r = json.load(open(out))
        os.unlink(out)
        if not rev:
            res[role] = r
        else:
            # the same programs run in the opposite order in another process: what ran before must not matter
            fwd = res[role]
            other = [[int(x) for x in k.split(",")] for k in sorted(fwd["digests"]) if r["digests"].get(k) != fwd["digests"][k]]
            other += r["differing"]
            fwd["differing"] = fwd["differing"] + other[:50]
            fwd["n_differing"] += len(other)
            fwd["order_dependent"] = len(other)
    for role, out, p in pprocs:
        if p.wait() != 0:
            raise RuntimeError("c28 pristine-process worker failed (%s)" % role)
        r = json.load(open(out))
        os.unlink(out)
        fwd = res[role]
        other = [[int(x) for x in k.split(",")] for k in sorted(r["digests"]) if str(fwd["digests"].get(k)) != r["digests"][k]]
        fwd["differing"] = fwd["differing"] + other[:50]
        fwd["n_differing"] += len(other)
        fwd["first_in_process_dependent"] = fwd.get("first_in_process_dependent", 0) + len(other)
        fwd["first_in_process_programs"] = fwd.get("first_in_process_programs", 0) + len(r["digests"])
    for role in res:
        res[role].pop("digests", None)
    os.rmdir(tmpd)
    return res


def make_spec(key):
    raise NotImplementedError


def _seed_env(env, s):
    """'clock' and 'deep' are processes with hash seed 0 and one other thing changed."""
    env["PYTHONHASHSEED"] = "0" if s in ("clock", "deep") else str(s)
    env.pop("C28_CLOCK", None)
    env.pop("C28_DEEP", None)
    if s == "clock":
        env["C28_CLOCK"] = "1"       # every clock reading is an hour after the last
    if s == "deep":
        env["C28_DEEP"] = "1"        # every program runs 500 frames down the interpreter stack
    return env


DEEP = 500


def _deep(n, fn):
    return fn() if n <= 0 else _deep(n - 1, fn)


def _run_all(depth, seeds, roles=("server", "client"), nshards=3, only=None):
    import tempfile
    here = os.path.dirname(os.path.dirname(os.path.dirname(os.path.abspath(__file__))))
    tmpd = tempfile.mkdtemp(prefix="c28-")
    procs = []
    for role in roles:
        for shard in range(nshards):
            for s in seeds:
                out = os.path.join(tmpd, "%s-%d-%s.json" % (role, shard, s))
                env = _seed_env(dict(os.environ), s)
                env["PYTHONPATH"] = here
                code = ("import sys; sys.path.insert(0, %r); from h2mc import env; from h2mc.checks import c28; "
                        "c28.worker_main(%r, %d, %d, %d, %r)" % (here, role, depth, shard, nshards, out))
                procs.append((role, shard, s, out, subprocess.Popen([sys.executable, "-c", code], env=env)))
    results = {}
    for role, shard, s, out, p in procs:
        rc = p.wait()
        if rc != 0:
            raise RuntimeError("c28 worker failed rc=%d (%s shard %d seed %s)" % (rc, role, shard, s))
        results[(role, shard, s)] = json.load(open(out))
        os.unlink(out)
    os.rmdir(tmpd)
    return results


def compare(results, seeds, roles, nshards):
    viols = {}
    programs = 0
    nontrivial = 0
    samples = []
    for role in roles:
        for shard in range(nshards):
            base = results[(role, shard, seeds[0])]
            names = base["alphabet"]
            programs += len(base["digests"])
            nontrivial += base["nontrivial"]
            for s in seeds[1:]:
                other = results[(role, shard, s)]
                if set(other["digests"]) != set(base["digests"]):
                    raise RuntimeError("program sets differ between seeds")
                for path, dg in base["digests"].items():
                    if other["digests"][path] != dg:
                        idx = [int(x) for x in path.split(",")]
                        prog = [names[i] for i in idx]
                        sig = {"kind": "nondeterministic", "role": role, "last_action": prog[-1]}
                        k = repr(sorted(sig.items()))
                        if k not in viols or len(viols[k]["case"]["program"]) > len(prog):
                            viols[k] = {"kind": "nondeterministic", "sig": sig,
                                        "msg": "[%s] program %s: observation differs between PYTHONHASHSEED=%s and %s" % (
                                            role, prog, seeds[0], s),
                                        "case": {"role": role, "program": prog, "path": idx, "seeds": [seeds[0], s],
                                                 "shard": shard, "nshards": nshards, "depth": max(len(p.split(",")) for p in base["digests"])}}
            if len(samples) < 3:
                p = sorted(base["digests"])[len(base["digests"]) // 2]
                samples.append({"role": role, "program": [names[int(i)] for i in p.split(",")]})
    return viols, programs, nontrivial, samples


def replay(rec):
    """Re-run the single program in two fresh interpreters with the recorded seeds."""
    case = rec["case"]
    if case.get("layer") == "isolation":
        res = _run_isolation(case["depth"], (case["role"],))[case["role"]]
        if case["path"] in res["differing"] or res["n_differing"]:
            return [{"kind": "connections-not-independent", "sig": rec["sig"], "msg": rec.get("msg", "")}]
        return []
    here = os.path.dirname(os.path.dirname(os.path.dirname(os.path.abspath(__file__))))
    if "nshards" in case:
        # the observation may depend on what the process did before this program: re-run the whole shard of the
        # program tree in two fresh interpreters, exactly as the check does
        res = _run_all(case["depth"], case["seeds"], (case["role"],), case["nshards"])
        key = ",".join(map(str, case["path"]))
        a = res[(case["role"], case["shard"], case["seeds"][0])]["digests"].get(key)
        b = res[(case["role"], case["shard"], case["seeds"][1])]["digests"].get(key)
        if a != b:
            return [{"kind": "nondeterministic",
                     "sig": {"kind": "nondeterministic", "role": case["role"], "last_action": case["program"][-1]},
                     "msg": "program %s differs between seeds %s" % (case["program"], case["seeds"])}]
        return []
    outs = []
    for s in case["seeds"]:
        env = _seed_env(dict(os.environ), s)
        code = ("import os, sys; sys.path.insert(0, %r); from h2mc import env, harness as H; from h2mc.checks import c28; "
                "A = c28.alphabet(%r); c = H.new_conn(%r); "
                "d = c28._deep(c28.DEEP if os.environ.get('C28_DEEP') else 0, lambda: [c28._step(c, A[i][1])[0] for i in %r]); print(d[-1])"
                % (here, case["role"] == "client", case["role"] == "client", case["path"]))
        outs.append(subprocess.run([sys.executable, "-c", code], env=env, capture_output=True, text=True).stdout.strip())
    if outs[0] != outs[1]:
        return [{"kind": "nondeterministic",
                 "sig": {"kind": "nondeterministic", "role": case["role"], "last_action": case["program"][-1]},
                 "msg": "program %s differs between seeds %s" % (case["program"], case["seeds"])}]
    return []


def run(ctx):
    depth = 3 if ctx.tier == "quick" else 4
    seeds = [0, 1, 2, 3, 1000 + ctx.seed, (2 ** 31 - 1 - 7 * ctx.seed) % (2 ** 32), "clock", "deep"]
    roles = ("server", "client")
    nshards = 3 if ctx.tier == "quick" else 5
    results = _run_all(depth, seeds, roles, nshards)
    viols, programs, nontrivial, samples = compare(results, seeds, roles, nshards)
    # (each reported violation is re-established by re-running its shard of the tree: the shortest few are enough)
    for v in sorted(viols.values(), key=lambda v: (len(v["case"]["program"]), v["case"]["program"]))[:6]:
        ctx.violation(v)
    ctx.notes["nondeterministic_signatures"] = len(viols)
    ctx.fanouts.append({"harness": "c28-tree-depth%d" % depth, "evaluations": programs * len(seeds),
                        "outcomes": {"programs": programs, "seeds": len(seeds), "programs-with-events-or-exception": nontrivial},
                        "nontrivial": nontrivial, "states": programs,
                        "domain": "program tree of depth %d over %d/%d actions (server/client), %d hash seeds %s" % (
                            depth, len(results[("server", 0, 0)]["alphabet"]), len(results[("client", 0, 0)]["alphabet"]),
                            len(seeds), seeds), "wall_s": 0})
    ctx.samples.extend(samples)
    ctx.notes["hash_seeds"] = seeds
    # ---- same-process isolation layer
    idepth = 2 if ctx.tier == "quick" else 3
    iso = _run_isolation(idepth, roles, full_pristine=(ctx.tier != "quick"))
    total = 0
    for role in roles:
        r = iso[role]
        total += r["programs"]
        if r["n_differing"]:
            path = min(r["differing"], key=len)
            prog = [r["alphabet"][i] for i in path]
            ctx.violation({"kind": "connections-not-independent",
                           "sig": {"kind": "connections-not-independent", "role": role, "last_action": prog[-1]},
                           "msg": "[%s] program %s gives a different observation on a freshly constructed connection after other connections "
                                  "of the same process have run their programs (%d of %d programs differ)" % (role, prog, r["n_differing"], r["programs"]),
                           "case": {"layer": "isolation", "role": role, "program": prog, "path": path, "depth": idepth}})
    ctx.fanouts.append({"harness": "c28-isolation-depth%d" % idepth, "evaluations": 2 * total,
                        "outcomes": {"programs": total, "passes": 2,
                                     "programs-also-run-as-the-first-thing-a-process-does": sum(iso[r].get("first_in_process_programs", 0) for r in roles)},
                        "nontrivial": total, "states": total,
                        "domain": "all programs of depth <= %d over the alphabet + 3 run-time configuration switches, each run twice in one process on freshly constructed connections, once more in a second process in the opposite order, and (programs of length 1, and of length 2 that begin by opening stream 1; thorough: all of length <= 2) as the first thing a forked process does" % idepth,
                        "wall_s": 0})
