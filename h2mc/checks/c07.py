"""C07 - received events per stream follow the HTTP message grammar for the role.

Peer-driven explicit-state BFS of one real connection (each role): all
sequences over a structural frame menu on stream ids {1,2,3,4} - HEADERS
carrying a request block, a 200 block, a 1xx block, a trailer block or an
invalid block, each +-END_STREAM and +-PRIORITY, whole or split into
HEADERS+CONTINUATION; DATA +-END_STREAM +-padding; RST_STREAM; PUSH_PROMISE
(parent 1 or 2, promised 2 or 4); WINDOW_UPDATE; PRIORITY - plus the minimum
of local actions that make peer frames meaningful (the client sends requests
on 1 / 3; either side resets).  In a second layer every single-bit flip of
every byte of the deterministic valid-traffic corpus is delivered too
(mutated, not h2-produced, peer input).

Oracle: a pure safety monitor over the returned events (no reference model of
acceptance): a server reports only request-side events and a client only
response-side events; per stream headers -> data -> optional trailers -> at
most one StreamEnded; no DataReceived before final headers; no headers or
data after StreamEnded; at most one StreamReset and nothing but
PriorityUpdated after it; stream_ended / priority_updated refer to an event
object that appears LATER IN THE SAME returned list (identity); trailers
always carry stream_ended.
"""
import pickle

from .. import corpus
from .. import harness as H
from .. import wire
from ..canon import fingerprint
from ..explorer import Step

PROPERTY = "C07"
ALPHABET = "configurations {default, inbound validation+normalisation off}; peer frames on ids {1,2,3,4}: HEADERS x {request,response,info,trailers,invalid} x {ES} x {PRIORITY} x {split}, DATA x {ES} x {pad}, RST_STREAM, PUSH_PROMISE (1->2, 1->4, 2->4, 3->2, 3->4), WINDOW_UPDATE (3 / 2^31-1), PRIORITY; local: request on 1/3, request refused for its priority argument on 1/3, reset 1/2"
BOUNDS = {"quick": "BFS depth 5 per role; all single-bit flips of the valid corpus",
          "thorough": "BFS depth 7 per role (or time budget, reported); all single-bit flips and all double-bit flips within one frame for corpus streams <= 64 bytes"}
sb = H.stateless_block

BLOCKS = {
    "request": H.REQ_POST, "response": H.RESP, "info": H.INFO, "trailers": H.TRAILERS,
    "invalid": [(b":status", b"200"), (b"Upper", b"x")],
    # a field name that is not UTF-8 (matters under header_encoding): request-shaped and response-shaped
    "badname-req": H.REQ_POST + [(b"x-caf\xe9", b"v")], "badname-resp": H.RESP + [(b"x-caf\xe9", b"v")],
}
SERVER_EVENTS = {"RequestReceived", "DataReceived", "TrailersReceived", "StreamEnded", "StreamReset", "PriorityUpdated",
                 "WindowUpdated"}
CLIENT_EVENTS = {"InformationalResponseReceived", "ResponseReceived", "DataReceived", "TrailersReceived", "StreamEnded",
                 "StreamReset", "PriorityUpdated", "WindowUpdated", "PushedStreamReceived", "AlternativeServiceAvailable"}
CONN_EVENTS = {"RemoteSettingsChanged", "SettingsAcknowledged", "PingReceived", "PingAckReceived", "ConnectionTerminated",
               "UnknownFrameReceived", "WindowUpdated", "PriorityUpdated", "AlternativeServiceAvailable"}


class Monitor:
    """Per-stream event grammar.  phase: start -> headers -> data -> trailers ; ended ; reset"""

    def __init__(self, client):
        self.client = client
        self.st = {}      # sid -> [phase, ended, reset]

    def key(self):
        return tuple(sorted((k, tuple(v)) for k, v in self.st.items()))

    def feed(self, events, bad):
        client = self.client
        allowed = CLIENT_EVENTS if client else SERVER_EVENTS
        for i, e in enumerate(events):
            name = type(e).__name__
            # related events must be later members of the same list (identity)
            for attr in ("stream_ended", "priority_updated"):
                rel = getattr(e, attr, None)
                if rel is not None:
                    if not any(rel is x for x in events[i + 1:]):
                        bad("related-event-not-later-in-list", "%s.%s refers to an event that is not a later member of the returned list" % (name, attr),
                            event=name, attr=attr)
                    want = "StreamEnded" if attr == "stream_ended" else "PriorityUpdated"
                    if type(rel).__name__ != want or getattr(rel, "stream_id", None) != getattr(e, "stream_id", None):
                        bad("related-event-wrong", "%s.%s is %s for stream %r" % (name, attr, type(rel).__name__, getattr(rel, "stream_id", None)),
                            event=name, attr=attr)
            if name == "TrailersReceived" and e.stream_ended is None:
                bad("trailers-without-stream-ended", "TrailersReceived on stream %d has no stream_ended" % e.stream_id)
            sid = getattr(e, "stream_id", None)
            if name == "PushedStreamReceived":
                sid = e.parent_stream_id
            if sid is None or sid == 0:
                if name not in CONN_EVENTS:
                    bad("stream-event-without-stream", "%s without a stream id" % name, event=name)
                continue
            if name not in allowed:
                bad("event-wrong-for-role", "a %s reported %s on stream %d" % ("client" if client else "server", name, sid), event=name)
                continue
            s = self.st.setdefault(sid, ["start", False, False])
            phase, ended, reset = s
            if name == "PriorityUpdated":
                continue
            if reset:
                bad("event-after-stream-reset", "%s on stream %d after its StreamReset" % (name, sid), event=name)
                continue
            if name == "StreamReset":
                s[2] = True
                continue
            if name in ("WindowUpdated", "AlternativeServiceAvailable"):
                continue
            if name == "PushedStreamReceived":
                # reported on the parent; the promised stream starts its own life
                self.st.setdefault(e.pushed_stream_id, ["start", False, False])
                if ended:
                    bad("event-after-stream-ended", "PushedStreamReceived on parent %d after StreamEnded" % sid, event=name)
                continue
            if ended:
                bad("event-after-stream-ended", "%s on stream %d after StreamEnded" % (name, sid), event=name)
                continue
            if name == "StreamEnded":
                s[1] = True
                if phase == "start":
                    bad("stream-ended-before-headers", "StreamEnded on stream %d before any headers" % sid)
                continue
            if name == "InformationalResponseReceived":
                if phase != "start":
                    bad("informational-after-final", "InformationalResponseReceived on stream %d in phase %s" % (sid, phase), phase=phase)
                continue
            if name in ("RequestReceived", "ResponseReceived"):
                if phase != "start":
                    bad("second-headers-event", "%s on stream %d in phase %s" % (name, sid, phase), event=name, phase=phase)
                s[0] = "headers"
                continue
            if name == "DataReceived":
                if phase == "start":
                    bad("data-before-headers", "DataReceived on stream %d before final headers" % sid)
                elif phase == "trailers":
                    bad("data-after-trailers", "DataReceived on stream %d after trailers" % sid)
                else:
                    s[0] = "data"
                continue
            if name == "TrailersReceived":
                if phase not in ("headers", "data"):
                    bad("trailers-out-of-place", "TrailersReceived on stream %d in phase %s" % (sid, phase), phase=phase)
                s[0] = "trailers"
                continue


def frame_menu(client):
    M = {}
    sids = (1, 2, 3, 4)
    for sid in sids:
        for blk in BLOCKS:
            for es in (False, True):
                M["H:%d:%s%s" % (sid, blk, ":es" if es else "")] = [wire.headers(sid, sb(BLOCKS[blk]), es=es)]
        M["H:%d:request:prio" % sid] = [wire.headers(sid, sb(BLOCKS["request"]), prio=(0, 9, False))]
        M["H:%d:response:es:prio" % sid] = [wire.headers(sid, sb(BLOCKS["response"]), es=True, prio=(3, 9, True))]
        b = sb(BLOCKS["trailers"])
        M["H:%d:trailers:es:split" % sid] = [wire.headers(sid, b[:2], es=True, eh=False), wire.continuation(sid, b[2:])]
        M["D:%d" % sid] = [wire.data(sid, b"abc")]
        M["D:%d:es" % sid] = [wire.data(sid, b"", es=True)]
        M["D:%d:pad:es" % sid] = [wire.data(sid, b"ab", es=True, pad=3)]
        M["R:%d" % sid] = [wire.rst_stream(sid, 2)]
        M["W:%d" % sid] = [wire.window_update(sid, 3)]
        M["W:%d:max" % sid] = [wire.window_update(sid, 2 ** 31 - 1)]      # overflows the stream's send window
        M["P:%d" % sid] = [wire.priority(sid, 0, 3, False)]
    for par, pro in ((1, 2), (1, 4), (2, 4), (3, 2), (3, 4)):
        M["PP:%d:%d" % (par, pro)] = [wire.push_promise(par, pro, sb(H.REQ))]
    # frames that carry no part of a message and must not change what may follow: ALTSVC on a stream, an unknown frame type
    M["A:1"] = [wire.altsvc(1, b"", b'h2=":443"')]
    M["U:1"] = [wire.raw(0x42, 0, 1, b"xyz")]
    return M


class S:
    pass


CONFIGS = {"default": {}, "novalidate": {"validate_inbound_headers": False, "normalize_inbound_headers": False},
           "utf8": {"header_encoding": "utf-8"}}


class Spec:
    def __init__(self, key):
        _, role, cfg, tier = key
        self.client = role == "client"
        self.tier = tier
        self.cfg = CONFIGS[cfg]
        self.name = "c07-%s-%s-%s" % (role, cfg, tier)
        self.max_depth = (5 if tier == "quick" else 7) - (1 if cfg != "default" else 0)
        self.frames = frame_menu(self.client)

    def initial(self):
        out = []
        for nm, handshake in (("handshaken", True), ("fresh", False)):
            st = S()
            st.h = H.Solo(self.client, handshake=handshake, **self.cfg)
            if not handshake:
                st.h.conn.initiate_connection()
                st.h.conn.data_to_send()
            st.mon = Monitor(self.client)
            st.dead = False
            out.append((nm, st))
        if self.client:
            # a start state further on: two requests outstanding, a push promised on the second one and completed
            st = pickle.loads(pickle.dumps(out[0][1]))
            for lab in ("l:req:1", "l:req:3", "rx:PP:3:4", "rx:H:4:response:es"):
                step = self.apply(st, lab)
                assert not step.violations and not st.dead, lab
            out.append(("two-requests+finished-push", st))
        return out

    def fingerprint(self, st):
        return fingerprint(st.h.conn, st.mon.key(), st.dead, st.h.need_preface)

    def actions(self, st):
        if st.dead:
            return []
        acts = ["rx:" + k for k in sorted(self.frames)]
        if self.client:
            acts += ["l:req:1", "l:req:1:es", "l:req:3:es", "l:reqbad:1", "l:reqbad:3"]
        else:
            acts += ["l:reqlike:2"]           # a server application tries to open stream 2 with a request-shaped block
            # what the server application sends (1xx, response, response + END_STREAM) never changes what the peer may still send
            acts += ["l:info:1", "l:resp:1", "l:resp:1:es"]
        acts += ["l:rst:1", "l:rst:2", "cleanup"]
        return acts

    def apply(self, st, lab):
        viols = []

        def bad(kind, msg, **sig):
            s = {"kind": kind, "role": "client" if self.client else "server"}
            s.update(sig)
            viols.append({"kind": kind, "sig": s, "msg": "after %s: %s" % (lab, msg)})

        h = st.h
        if lab == "cleanup":
            h.cleanup()
            return Step("cleanup")
        parts = lab.split(":")
        if parts[0] == "l":
            if parts[1] == "reqlike":
                o = h.api("send_headers", int(parts[2]), H.ni(H.REQ_POST))
                if o.kind == "ok":
                    bad("refusal-expected", "a server's send_headers(%s, <request block>) on a stream nobody opened succeeded" % parts[2])
                return Step("l-refused-arg", viols)
            if parts[1] == "reqbad":
                # a request the library must refuse for an argument (the stream would depend on itself): the stream is not opened
                sid = int(parts[2])
                o = h.api("send_headers", sid, H.ni(H.REQ_POST), priority_depends_on=sid)
                if o.kind == "ok":
                    bad("refusal-expected", "send_headers with a self-dependency succeeded")
                return Step("l-refused-arg", viols)
            if parts[1] in ("info", "resp"):
                o = h.api("send_headers", int(parts[2]), H.ni(H.INFO if parts[1] == "info" else H.RESP), end_stream=(parts[-1] == "es"))
                return Step("l-" + parts[1] + "-" + o.kind, viols)      # refused or not, the path goes on
            if parts[1] == "req":
                o = h.api("send_headers", int(parts[2]), H.ni(H.REQ_POST), end_stream=(parts[-1] == "es"))
            else:
                o = h.api("reset_stream", int(parts[2]))
            if o.kind == "raise":
                st.dead = True
                return Step("l-refused", viols, prune=True)
            return Step("l-ok", viols)
        o = h.rx(self.frames[lab[3:]])
        if o.kind == "raise" and not o.is_proto:
            # not a connection error (C17 reports the exception itself): the connection goes on, and so does the monitor -
            # whatever the stream reports next is judged against what it has reported so far
            h.m.closed = False
            return Step("rx-other-exception", viols)
        if o.kind == "raise":
            st.dead = True
            return Step("rx-conn-error", viols, prune=True)
        st.mon.feed(o.events, bad)
        if viols:
            st.dead = True
        names = sorted(set(type(e).__name__ for e in o.events))
        return Step("rx-" + ("+".join(names) if names else "nothing"), viols)


def make_spec(key):
    return Spec(key)


# ------------------------------------------------------------------ mutation layer

def job_flip(job):
    client, idx, double = job["client"], job["stream"], job["double"]
    name, frames = corpus.valid_streams(client)[idx]
    data = wire.ser(frames)
    blob = pickle.dumps(corpus.prepared_for_valid(client))
    viols = {}
    n = nt = 0
    outcomes = {}

    def run(d2, desc):
        nonlocal n, nt
        conn = pickle.loads(blob)
        mon = Monitor(client)
        # the client's own request on stream 1 is outstanding
        n += 1

        def bad(kind, msg, **sig):
            s = {"kind": kind, "role": "client" if client else "server", "layer": "mutation"}
            s.update(sig)
            k = repr(sorted(s.items()))
            if k not in viols:
                viols[k] = {"kind": kind, "sig": s, "msg": "[%s %s] %s" % (name, desc, msg),
                            "case": {"client": client, "stream": idx, "hex": d2.hex()}}
        # deliver frame by frame where the framing survived, else in one piece
        try:
            chunks = [f.serialize() for f in wire.split_frames(d2)]
        except wire.WireError:
            chunks = [d2]
        for ch in chunks:
            o = H.recv(conn, ch)
            if o.kind == "raise":
                outcomes["rejected"] = outcomes.get("rejected", 0) + 1
                nt += 1
                return
            mon.feed(o.events, bad)
        outcomes["accepted"] = outcomes.get("accepted", 0) + 1

    for i in range(len(data)):
        for bit in range(8):
            d2 = data[:i] + bytes([data[i] ^ (1 << bit)]) + data[i + 1:]
            run(d2, "flip %d.%d" % (i, bit))
    if double and len(data) <= 64:
        for i in range(len(data)):
            for j in range(i, len(data)):
                for b1 in range(8):
                    for b2 in range(8):
                        if i == j and b2 <= b1:
                            continue
                        d2 = bytearray(data)
                        d2[i] ^= (1 << b1)
                        d2[j] ^= (1 << b2)
                        run(bytes(d2), "flip %d.%d+%d.%d" % (i, b1, j, b2))
    return {"evaluations": n, "outcomes": {"flip:" + k: v for k, v in outcomes.items()}, "nontrivial": nt,
            "violations": list(viols.values()), "samples": [{"layer": "mutation", "stream": name, "bytes": len(data)}]}


def replay(rec):
    case = rec.get("case")
    if not case:
        return None
    client = case["client"]
    conn = corpus.prepared_for_valid(client)
    mon = Monitor(client)
    viols = []

    def bad(kind, msg, **sig):
        s = {"kind": kind, "role": "client" if client else "server", "layer": "mutation"}
        s.update(sig)
        viols.append({"kind": kind, "sig": s, "msg": msg})
    d2 = bytes.fromhex(case["hex"])
    try:
        chunks = [f.serialize() for f in wire.split_frames(d2)]
    except wire.WireError:
        chunks = [d2]
    for ch in chunks:
        o = H.recv(conn, ch)
        if o.kind == "raise":
            break
        mon.feed(o.events, bad)
    return viols


def run(ctx):
    quick = ctx.tier == "quick"
    for role in ("server", "client"):
        for cfg in sorted(CONFIGS):
            ctx.explore(("c07", role, cfg, ctx.tier), time_budget=None if quick else 240)
    jobs = []
    for client in (False, True):
        for i in range(len(corpus.valid_streams(client))):
            jobs.append({"client": client, "stream": i, "double": not quick})
    ctx.fanout("c07-bitflips-%s" % ctx.tier, jobs, "job_flip", domain="every single-bit flip of %d corpus streams" % len(jobs))
