"""C03 - outbound DATA never exceeds the peer's flow-control windows.

Explicit-state BFS of one real connection (each role) in product with an
integer window model (RFC 7540 6.9 / 6.9.2): per-stream and connection send
windows derived *independently* from the peer's INITIAL_WINDOW_SIZE settings
and WINDOW_UPDATE frames.  Actions: send_data with flow-controlled length
templates {1, W, W+1} relative to the model's current window W (with and
without padding), end_stream, received WINDOW_UPDATE (stream / connection;
1, exactly-to-ceiling, one-past-ceiling), received SETTINGS changing
INITIAL_WINDOW_SIZE up and down (into negative windows), opening further
streams after a settings change.

Oracle on every transition: a send of length L succeeds iff L <= min(conn,
stream) and L <= frame limit, emitting exactly one DATA frame whose
flow-controlled length is L; otherwise FlowControlError (or
FrameTooLargeError) with nothing emitted and no window changed; after every
step local_flow_control_window(sid) == min(conn, stream) for every live
stream; overflowing WINDOW_UPDATE -> RST_STREAM / GOAWAY FLOW_CONTROL_ERROR;
overflowing settings delta -> GOAWAY FLOW_CONTROL_ERROR.
"""
from .. import harness as H
from .. import wire
from ..canon import fingerprint
from ..explorer import Step

PROPERTY = "C03"
ALPHABET = ("send_data L in {1, W, W+1} x pad {None, 1 | 0, 255}; end_stream; WINDOW_UPDATE sid/0 x {1, to 2^31-1, past 2^31-1}; "
            "SETTINGS INITIAL_WINDOW_SIZE in {0, 5, 65536, 2^31-1}; open next stream; server: push_stream (reserved stream, windows exist), response headers on it; frame limit 16384 or 2^24-1; start states: handshaken, and (server) upgraded with INITIAL_WINDOW_SIZE 100000 in the HTTP2-Settings header")
BOUNDS = {"quick": "depth 6 (4 from the upgraded start state), <=2 streams, both roles, two frame-limit configurations", "thorough": "depth 8 (or the per-harness time budget, reported), <=3 streams, pads {None,0,1,255}"}
MAXW = 2 ** 31 - 1
sb = H.stateless_block


class S:
    pass


class Spec:
    def __init__(self, key):
        _, role, big, tier = key
        self.upgraded = role == "server-upgraded"
        self.client = role == "client"
        self.big = big
        self.tier = tier
        self.name = "c03-%s-%s-%s" % (role, "F2^24" if big else "F16384", tier)
        self.max_depth = (4 if self.upgraded else 6) if tier == "quick" else (6 if self.upgraded else 8)
        self.max_streams = 2 if tier == "quick" else 3
        # quick: the two frame-limit configurations split the padding values between them
        self.pads = ([None, 1] if big else [None, 0, 255]) if tier == "quick" else [None, 0, 1, 255]
        self.iws_values = [0, 5, 65536, MAXW]

    def initial(self):
        st = S()
        ps = [(wire.S_MAX_FRAME_SIZE, 2 ** 24 - 1)] if self.big else []
        st.h = H.Solo(self.client, peer_settings=ps)
        st.F = 2 ** 24 - 1 if self.big else 16384
        st.Wc = 65535
        st.iws = 65535
        st.Ws = {}           # sid -> model window (sendable streams)
        st.done = set()      # streams where we sent END_STREAM or that were reset
        st.nstreams = 0
        st.resv = set()      # promised streams (server role) whose response headers were not sent yet: windows exist, no DATA yet
        st.npush = 0
        st.dead = False
        out = [("start", st)]
        if self.upgraded:
            out = []
            # h2c-upgraded servers whose client announced INITIAL_WINDOW_SIZE below / above the default in the HTTP2-Settings
            # header (and repeats it in its first SETTINGS frame): the setting moves stream windows - stream 1 exists already -
            # and never the connection window
            import base64
            for iws in (100000,):
                st2 = S()
                st2.h = H.Solo(False, handshake=False)
                pairs = [(wire.S_INITIAL_WINDOW_SIZE, iws)]
                st2.h.conn.initiate_upgrade_connection(base64.urlsafe_b64encode(wire.settings(pairs).payload))
                o = st2.h.rx([wire.settings(pairs), wire.settings([], ack=True)])
                assert o.kind == "ok", o.brief()
                st2.h.m.upgrade()
                o = st2.h.api("send_headers", 1, H.ni(H.RESP))
                assert o.kind == "ok", o.brief()
                st2.F, st2.Wc, st2.iws, st2.Ws, st2.done, st2.nstreams = 16384, 65535, iws, {1: iws}, set(), 1
                st2.resv, st2.npush, st2.dead = set(), 0, False
                out.append(("upgraded-iws%d" % iws, st2))
        return out

    def fingerprint(self, st):
        return fingerprint(st.h.conn, st.Wc, st.iws, tuple(sorted(st.Ws.items())), tuple(sorted(st.done)),
                           st.nstreams, st.dead, tuple(sorted(st.resv)), st.npush)

    def _sids(self, st):
        return sorted(s for s in st.Ws if s not in st.done and s not in st.resv)

    def actions(self, st):
        if st.dead:
            return []
        acts = []
        if st.nstreams < self.max_streams:
            acts.append("open")
        for sid in self._sids(st):
            for L in ("1", "W", "W+1"):
                for p in self.pads:
                    acts.append("send:%d:%s:%s" % (sid, L, "n" if p is None else p))
            # the same with END_STREAM: exactly the window, one byte more (refused: the stream must stay as it was), and no
            # payload at all but padding
            for L in ("W", "W+1"):
                acts.append("send:%d:%s:n:es" % (sid, L))
            acts.append("send:%d:1:%s:es" % (sid, self.pads[-1]))
            acts.append("sendF1:%d" % sid)
            acts.append("end:%d" % sid)
            for inc in ("1", "max", "over"):
                acts.append("wu:%d:%s" % (sid, inc))
        for sid in sorted(st.done):
            if sid in st.Ws:
                acts.append("senddead:%d" % sid)     # a send the stream refuses although the windows would allow it
        if not self.client and st.npush < 1:
            for sid in self._sids(st):
                if sid % 2:
                    acts.append("push:%d" % sid)
        for sid in sorted(st.resv):
            acts.append("activate:%d" % sid)
            for inc in ("1", "max", "over"):
                acts.append("wu:%d:%s" % (sid, inc))
        for inc in ("1", "max", "over"):
            acts.append("wu:0:%s" % inc)
        for v in self.iws_values:
            acts.append("iws:%d" % v)
        acts.append("iws+mfs:5")        # the same change in a SETTINGS frame that also lists (an unchanged) MAX_FRAME_SIZE
        acts.append("iws+mfs:65536")
        return acts

    def apply(self, st, lab):
        viols = []
        h = st.h

        def bad(kind, msg, **sig):
            s = {"kind": kind}
            s.update(sig)
            viols.append({"kind": kind, "sig": s, "msg": msg})

        parts = lab.split(":")
        out = "ok"
        if lab == "open":
            st.nstreams += 1
            sid = 2 * st.nstreams - 1
            if self.client:
                o = h.api("send_headers", sid, H.ni(H.REQ_POST))
            else:
                o = h.rx([wire.headers(sid, sb(H.REQ_POST))], ("headers", sid, False, False))
                if o.kind == "ok":
                    o = h.api("send_headers", sid, H.ni(H.RESP))
            if o.kind != "ok":
                bad("open-failed", "opening stream %d failed: %s" % (sid, o.brief()))
                st.dead = True
                return Step("open-failed", viols, prune=True)
            st.Ws[sid] = st.iws
            out = "open"
        elif parts[0] == "senddead":
            sid = int(parts[1])
            o = h.api("send_data", sid, b"dd")
            if o.kind == "ok":
                bad("send-on-ended-stream-accepted", "send_data on stream %d, which this endpoint has ended or reset -> %s" % (sid, o.brief()))
                st.dead = True
                return Step("senddead-accepted", viols, prune=True)
            if o.raw:
                bad("refused-send-emitted", "refused send_data emitted %d bytes" % len(o.raw))
            out = "senddead-refused"       # no window may have moved: the accessor invariant below decides
        elif parts[0] == "push":
            parent = int(parts[1])
            st.npush += 1
            promised = 2 * st.npush
            o = h.api("push_stream", parent, promised, H.ni(H.REQ))
            if o.kind != "ok":
                bad("push-failed", "push_stream(%d, %d) failed: %s" % (parent, promised, o.brief()))
                st.dead = True
                return Step("push-failed", viols, prune=True)
            st.Ws[promised] = st.iws        # RFC 7540 6.9.2: a new stream starts with the peer's current INITIAL_WINDOW_SIZE
            st.resv.add(promised)
            out = "push"
        elif parts[0] == "activate":
            sid = int(parts[1])
            o = h.api("send_headers", sid, H.ni(H.RESP))
            if o.kind != "ok":
                bad("open-failed", "response headers on promised stream %d failed: %s" % (sid, o.brief()))
                st.dead = True
                return Step("open-failed", viols, prune=True)
            st.resv.discard(sid)
            out = "activate"
        elif parts[0] in ("send", "sendF1"):
            sid = int(parts[1])
            W = min(st.Wc, st.Ws[sid])
            if parts[0] == "sendF1":
                pad = None
                L = st.F + 1
            else:
                pad = None if parts[3] == "n" else int(parts[3])
                L = {"1": 1, "W": W, "W+1": W + 1}[parts[2]]
            over = 0 if pad is None else pad + 1
            if L < over:
                L = over          # smallest frame with that padding
            n = L - over
            if n > 2 ** 24:      # do not allocate absurd payloads: the verdict for such L is still decided
                n = 2 ** 24
                L = n + over
            es = len(parts) > 4 and parts[4] == "es"
            if es and pad is not None and parts[2] == "1":
                n, L = 0, over        # nothing but padding (and the END_STREAM flag)
            o = h.api("send_data", sid, b"d" * n, pad_length=pad, **({"end_stream": True} if es else {}))
            fits = L <= W
            within = L <= st.F
            if fits and within:
                if o.kind != "ok":
                    if L == 0 and W < 0:
                        pass      # unspecified: zero-length DATA on a negative window
                    else:
                        bad("fitting-send-refused", "send_data(sid=%d, L=%d) with window %d (conn %d, stream %d), frame limit %d refused: %s" % (
                            sid, L, W, st.Wc, st.Ws[sid], st.F, o.brief()), exc=o.exc_name, padded=pad is not None)
                else:
                    dfs = [f for f in o.frames if f.type == wire.DATA]
                    if len(o.frames) != 1 or len(dfs) != 1 or dfs[0].f["fcl"] != L or dfs[0].sid != sid or \
                            len(dfs[0].f["data"]) != n or dfs[0].f["pad"] != pad or o.wire_error:
                        bad("wrong-data-frame", "send_data(sid=%d, %d bytes, pad=%r) emitted %s" % (sid, n, pad, o.brief()),
                            padded=pad is not None)
                    st.Wc -= L
                    st.Ws[sid] -= L
                    if es:
                        if not dfs or not dfs[0].f["es"]:
                            bad("wrong-data-frame", "send_data(sid=%d, end_stream=True) emitted %s" % (sid, o.brief()), padded=pad is not None)
                        st.done.add(sid)
                out = "send-ok"
            else:
                want = ("FlowControlError",) if not fits and within else (
                    ("FrameTooLargeError",) if fits else ("FlowControlError", "FrameTooLargeError"))
                if o.kind == "ok":
                    bad("window-exceeded" if not fits else "frame-limit-exceeded",
                        "send_data(sid=%d, L=%d) succeeded with window %d (conn %d, stream %d), frame limit %d: %s" % (
                            sid, L, W, st.Wc, st.Ws[sid], st.F, o.brief()), padded=pad is not None,
                        conn_limited=st.Wc < st.Ws[sid])
                    st.dead = True
                    return Step("send-overrun", viols, prune=True)
                if o.exc_name not in want:
                    bad("wrong-refusal", "send_data(sid=%d, L=%d, W=%d, F=%d) raised %s, expected %s" % (
                        sid, L, W, st.F, o.exc_name, "/".join(want)), exc=o.exc_name, expected="/".join(want))
                if o.raw:
                    bad("refused-send-emitted", "refused send_data emitted %d bytes" % len(o.raw))
                out = "send-refused-" + o.exc_name
        elif parts[0] == "end":
            sid = int(parts[1])
            o = h.api("end_stream", sid)
            if o.kind != "ok":
                bad("end-stream-refused", "end_stream(%d) -> %s" % (sid, o.brief()))
            st.done.add(sid)
            out = "end"
        elif parts[0] == "wu":
            sid = int(parts[1])
            cur = st.Wc if sid == 0 else st.Ws[sid]
            inc = {"1": 1, "max": MAXW - cur, "over": MAXW - cur + 1}[parts[2]]
            if inc < 1 or inc > MAXW:
                return Step("wu-not-expressible", viols, prune=True)
            o = h.rx([wire.window_update(sid, inc)])
            if cur + inc > MAXW:
                if sid == 0:
                    gos = [f for f in o.frames if f.type == wire.GOAWAY]
                    if not (o.kind == "raise" and o.is_proto and int(o.code) == wire.FLOW_CONTROL_ERROR and len(gos) == 1
                            and gos[0].f["code"] == wire.FLOW_CONTROL_ERROR):
                        bad("conn-window-overflow-not-rejected", "WINDOW_UPDATE(0,%d) on window %d -> %s" % (inc, cur, o.brief()))
                    st.dead = True
                    return Step("wu-conn-overflow", viols, prune=True)
                rs = [f for f in o.frames if f.type == wire.RST_STREAM and f.sid == sid]
                if not (o.kind == "ok" and len(rs) == 1 and rs[0].f["code"] == wire.FLOW_CONTROL_ERROR):
                    bad("stream-window-overflow-not-reset", "WINDOW_UPDATE(%d,%d) on window %d -> %s" % (sid, inc, cur, o.brief()))
                    if o.kind == "raise":
                        st.dead = True
                        return Step("wu-stream-overflow-conn-error", viols, prune=True)
                st.done.add(sid)
                st.resv.discard(sid)
                out = "wu-stream-overflow"
            else:
                if o.kind != "ok" or o.frames:
                    bad("valid-window-update-rejected", "WINDOW_UPDATE(%d,%d) on window %d -> %s" % (sid, inc, cur, o.brief()))
                    st.dead = True
                    return Step("wu-rejected", viols, prune=True)
                evs = [e for e in o.events if type(e).__name__ == "WindowUpdated"]
                if len(evs) != 1 or evs[0].stream_id != sid or evs[0].delta != inc:
                    bad("window-updated-event", "WINDOW_UPDATE(%d,%d) reported as %s" % (sid, inc, [H.event_brief(e) for e in o.events]))
                if sid == 0:
                    st.Wc += inc
                else:
                    st.Ws[sid] += inc
                out = "wu"
        elif parts[0] in ("iws", "iws+mfs"):
            v = int(parts[1])
            delta = v - st.iws
            pairs = [(wire.S_INITIAL_WINDOW_SIZE, v)]
            if parts[0] == "iws+mfs":
                pairs = [(wire.S_MAX_FRAME_SIZE, st.F), (wire.S_INITIAL_WINDOW_SIZE, v)]
            o = h.rx([wire.settings(pairs)])
            overflow = any(w + delta > MAXW for s, w in st.Ws.items() if s not in st.done)
            # streams we already ended may or may not still be adjusted: only live ones are decisive
            overflow_any = any(w + delta > MAXW for s, w in st.Ws.items())
            if overflow:
                gos = [f for f in o.frames if f.type == wire.GOAWAY]
                if not (o.kind == "raise" and o.is_proto and int(o.code) == wire.FLOW_CONTROL_ERROR and len(gos) == 1):
                    bad("settings-overflow-not-rejected", "INITIAL_WINDOW_SIZE=%d (delta %d) overflows a stream window but -> %s" % (v, delta, o.brief()))
                st.dead = True
                return Step("iws-overflow", viols, prune=True)
            if o.kind != "ok":
                if overflow_any:
                    st.dead = True
                    return Step("iws-overflow-on-ended-stream", viols, prune=True)
                bad("valid-settings-rejected", "INITIAL_WINDOW_SIZE=%d -> %s" % (v, o.brief()))
                st.dead = True
                return Step("iws-rejected", viols, prune=True)
            for s in st.Ws:
                st.Ws[s] += delta
            st.iws = v
            out = "iws-down" if delta < 0 else "iws-up"
        else:
            raise ValueError(lab)
        # invariant: the accessor reports min(conn, stream) for every live stream
        for sid in self._sids(st) + sorted(x for x in st.resv if x not in st.done):
            try:
                got = h.conn.local_flow_control_window(sid)
            except Exception as e:  # noqa: BLE001
                bad("accessor-raised", "local_flow_control_window(%d) raised %r" % (sid, e))
                continue
            want = min(st.Wc, st.Ws[sid])
            if got != want:
                bad("window-accessor-mismatch",
                    "after %s: local_flow_control_window(%d) = %d, model min(conn %d, stream %d) = %d" % (
                        lab, sid, got, st.Wc, st.Ws[sid], want),
                    after=parts[0], conn_off=(h.conn.outbound_flow_control_window != st.Wc))
        if viols:
            st.dead = True
        return Step(out, viols)


def make_spec(key):
    return Spec(key)


def run(ctx):
    for role in ("server", "client"):
        for big in (False, True):
            ctx.explore(("c03", role, big, ctx.tier), time_budget=None if ctx.tier == "quick" else 240)
    ctx.explore(("c03", "server-upgraded", False, ctx.tier), time_budget=None if ctx.tier == "quick" else 200)
