"""C13 - header compression state stays synchronised across all calls.

Explicit-state BFS of one real connection (each role) with an independent
hpack.Decoder owned by the harness ("the peer") that consumes every emitted
header block in wire order.  Actions: valid request / response / 1xx /
trailers / push; invalid lists that fail at different pipeline stages (missing
:path - detected only after the whole list was consumed; duplicated
pseudo-header; response pseudo-header in a request); trailers without
END_STREAM; calls with valid and invalid priority arguments (servers: always
refused); calls refused by the stream state machine; calls on reset streams;
every list carries its own *fresh indexable field* so that a leaked table
insertion is observable; peer SETTINGS HEADER_TABLE_SIZE in {0, 64, 4096,
8192} at any point.

Oracle: every emitted block decodes without error to exactly the normalised
list of the call that succeeded; after every step the encoder's dynamic table
equals the peer decoder's, entry for entry; a call that raises leaves the
encoder's table unchanged and emits nothing.
"""
from .. import harness as H
from .. import wire
from ..canon import fingerprint
from ..explorer import Step
from ..models import headers_spec as HS

PROPERTY = "C13"
ALPHABET = ("send_headers variants {valid, no-:path, duplicate pseudo, wrong-role pseudo, valid+priority, priority weight 0, priority self-dependency, "
            "+-END_STREAM, 1xx, 1xx+END_STREAM, trailers +-END_STREAM, trailers with pseudo-header}, push_stream {valid, invalid list, bad parent, promised id already used, promised id odd}, "
            "reset_stream, peer HEADERS opening streams, peer SETTINGS HEADER_TABLE_SIZE {0,64,4096,8192}; streams {1,3} (+ promised 2,4)")
BOUNDS = {"quick": "depth 5 per role", "thorough": "depth 7 per role (or time budget, reported)"}
sb = H.stateless_block


def fresh(tag):
    return (b"x-fresh-" + tag.encode(), b"value-" + tag.encode())


REQ = H.REQ
RESP = H.RESP


def variants(client):
    """label -> (method, builder(sid) -> (args, kwargs), block type or None)"""
    V = {}

    def add(name, btype, hdrs, es=False, **kw):
        V[name] = (btype, hdrs + [fresh(name)], es, kw)

    if client:
        add("req", "request", list(REQ))
        add("req-es", "request", list(REQ), es=True)
        add("req-nopath", "request", [h for h in REQ if h[0] != b":path"])
        add("req-dup", "request", list(REQ) + [(b":method", b"GET")])
        add("req-status", "request", list(REQ) + [(b":status", b"200")])
        add("req-prio", "request", list(REQ), priority_weight=7, priority_depends_on=0, priority_exclusive=True)
        # a block that needs CONTINUATION frames, with and without the five extra bytes of priority fields in the first frame
        add("req-big", "request", list(REQ) + [(b"x-big", b"Z" * 20000)])
        add("req-prio-big", "request", list(REQ) + [(b"x-big", b"Z" * 20000)], priority_weight=7)
        add("req-prio-w0", "request", list(REQ), priority_weight=0)
        add("req-prio-self", "request", list(REQ), priority_depends_on="SELF")
        add("trailers", "trailers", [(b"x-t", b"1")], es=True)
        add("trailers-noes", "trailers", [(b"x-t", b"1")])
        add("trailers-pseudo", "trailers", [(b":path", b"/")], es=True)
    else:
        add("resp", "response", list(RESP))
        add("resp-es", "response", list(RESP), es=True)
        add("resp-nostatus", "response", [(b"content-type", b"x")])
        add("resp-reqpseudo", "response", list(RESP) + [(b":path", b"/")])
        add("resp-prio", "response", list(RESP), priority_weight=7)
        add("info", "info", [(b":status", b"103")])
        add("info-es", "info", [(b":status", b"103")], es=True)
        add("trailers", "trailers", [(b"x-t", b"1")], es=True)
        add("trailers-noes", "trailers", [(b"x-t", b"1")])
    # connection-specific fields written with padding, sent while the application has outbound validation switched off: the
    # documented normalisation removes them, and what the peer decodes is the normalised list
    CONN = [(b" Connection ", b"close"), (b"Keep-Alive\t", b"5"), (b"x-after", b"1")]
    if client:
        V["req-conn-novalidate"] = ("request", list(REQ) + CONN + [fresh("req-conn-novalidate")], False, {"_novalidate": True})
    else:
        V["resp-conn-novalidate"] = ("response", list(RESP) + CONN + [fresh("resp-conn-novalidate")], False, {"_novalidate": True})
    # trailers with no field at all: the block still owes the peer the table-size update that a HEADER_TABLE_SIZE change calls for
    V["trailers-empty"] = ("trailers", [], True, {})
    return V


class S:
    pass


class Spec:
    def __init__(self, key):
        _, role, tier = key
        self.client = role == "client"
        self.tier = tier
        self.name = "c13-%s-%s" % (role, tier)
        self.max_depth = 5 if tier == "quick" else 7
        self.V = variants(self.client)

    def initial(self):
        st = S()
        st.h = H.Solo(self.client)
        st.dead = False
        st.peer_hts = 4096
        st.resize_pending = False
        st.n_resizes = 0         # HEADER_TABLE_SIZE settings received since the last emitted header block (capped at 2)
        st.local_hts = False
        out = [("handshaken", st)]
        if not self.client:
            # an h2c-upgraded server whose client announced HEADER_TABLE_SIZE=0 in the HTTP2-Settings header (and repeats it
            # in its first SETTINGS frame): every block the server emits must decode with a table of that size
            import base64
            st2 = S()
            st2.h = H.Solo(False, handshake=False)
            pairs = [(wire.S_HEADER_TABLE_SIZE, 0)]
            st2.h.conn.initiate_upgrade_connection(base64.urlsafe_b64encode(wire.settings(pairs).payload))
            o = st2.h.rx([wire.settings(pairs), wire.settings([], ack=True)])
            assert o.kind == "ok", o.brief()
            st2.h.m.upgrade()
            st2.dead = False
            st2.peer_hts = 0
            st2.h.wdec.max_allowed_table_size = 0
            st2.resize_pending = True
            st2.n_resizes = 1
            st2.local_hts = False
            out.append(("upgraded-hts0", st2))
        return out

    def fingerprint(self, st):
        return fingerprint(st.h.conn, st.h.m.key(), st.h.wdec, st.h.wdec_broken, st.dead, st.peer_hts, st.resize_pending, st.n_resizes, st.local_hts)

    def actions(self, st):
        if st.dead:
            return []
        acts = []
        sids = (1, 3)
        for sid in sids:
            for name in sorted(self.V):
                acts.append("h:%d:%s" % (sid, name))
            acts.append("rst:%d" % sid)
            if not self.client:
                acts.append("rx:H:%d" % sid)
                acts.append("push:%d:ok" % sid)
                acts.append("push:%d:bad" % sid)
                acts.append("push:%d:big" % sid)        # block that needs CONTINUATION frames (four extra bytes in the first frame)
                acts.append("push:%d:lowid" % sid)      # valid list, promised id already used (or 0)
                acts.append("push:%d:oddid" % sid)      # valid list, promised id of the client's parity
        for v in (0, 64, 4096, 8192):
            acts.append("rx:hts:%d" % v)
        # the table size changes together with MAX_FRAME_SIZE (at its current value) in one SETTINGS frame
        acts += ["rx:hts:0:mfs", "rx:hts:64:mfs"]
        if not st.local_hts:
            # OUR HEADER_TABLE_SIZE raised to 8192 and acknowledged: it bounds the table of the peer's encoder - never ours
            acts.append("l:hts8192+ack")
        # a header-carrying call whose output the application has not collected yet when the peer's SETTINGS arrives
        acts.append("h+hts:1:%s:64" % ("req" if self.client else "resp"))
        return acts

    def _tables(self, st):
        enc = [tuple(map(bytes, e)) for e in st.h.conn.encoder.header_table.dynamic_entries]
        dec = [tuple(map(bytes, e)) for e in st.h.wdec.header_table.dynamic_entries]
        return enc, dec

    def apply(self, st, lab):
        viols = []
        h = st.h

        def bad(kind, msg, **sig):
            s = {"kind": kind, "role": "client" if self.client else "server"}
            s.update(sig)
            viols.append({"kind": kind, "sig": s, "msg": msg})

        parts = lab.split(":")
        out = parts[0]
        enc_before, _ = self._tables(st)
        o = None
        expect_list = None
        call_desc = lab
        if parts[0] == "h+hts":
            sid, name, v = int(parts[1]), parts[2], int(parts[3])
            btype, hdrs, es, kw = self.V[name]
            try:
                h.conn.send_headers(sid, list(hdrs), end_stream=es)
            except Exception:  # noqa: BLE001 - the plain actions judge refusals; nothing is queued then
                return Step("h+hts-not-possible", viols, prune=True)
            o = h.rx([wire.settings([(wire.S_HEADER_TABLE_SIZE, v)])])
            if o.kind != "ok":
                st.dead = True
                return Step("rx-hts-rejected", viols, prune=True)
            kinds = [f.type for f in o.frames]
            if wire.SETTINGS in kinds and wire.HEADERS in kinds and kinds.index(wire.SETTINGS) < kinds.index(wire.HEADERS):
                # the peer lowers its decoder's limit when it sees the ACK: a block encoded before must be on the wire before it
                bad("settings-ack-overtook-header-block", "send_headers was called before the peer's HEADER_TABLE_SIZE=%d arrived, "
                    "but the output is %s" % (v, [f.name for f in o.frames]))
            if o.wire_error:
                bad("peer-cannot-decode", "%s: %s" % (lab, o.wire_error),
                    error=o.wire_error.split("(")[0].split(":")[-1].strip() + ":" + ("exceeded" if "exceeded" in o.wire_error else "other"),
                    table_size_settings_pending=st.n_resizes)
            st.peer_hts = v
            h.wdec.max_allowed_table_size = v
            st.resize_pending = True
            st.n_resizes = min(2, st.n_resizes + 1)
            if h.wdec_broken or viols:
                st.dead = True
            return Step("h+hts", viols)
        if lab == "l:hts8192+ack":
            st.local_hts = True
            o = h.api("update_settings", {wire.S_HEADER_TABLE_SIZE: 8192})
            if o.kind != "ok":
                st.dead = True
                return Step("l-hts-refused", viols, prune=True)
            for _ in range(2):      # (the first ACK may still be the one for the initial SETTINGS frame)
                o = h.rx([wire.settings([], ack=True)])
                if o.kind != "ok":
                    st.dead = True
                    return Step("ack-rejected", viols, prune=True)
            return Step("l-hts+ack", viols)
        if parts[0] == "rx" and parts[1] == "hts":
            v = int(parts[2])
            pairs = [(wire.S_HEADER_TABLE_SIZE, v)]
            if parts[-1] == "mfs":
                pairs = [(wire.S_MAX_FRAME_SIZE, 16384)] + pairs
            o = h.rx([wire.settings(pairs)])
            if o.kind != "ok":
                # the connection was already unusable (an earlier refused call closed it): C01's business
                st.dead = True
                return Step("rx-hts-rejected", viols, prune=True)
            st.peer_hts = v
            h.wdec.max_allowed_table_size = v
            st.resize_pending = True     # the peer's table only follows at the next header block
            st.n_resizes = min(2, st.n_resizes + 1)
            return Step("rx-hts", viols)
        if parts[0] == "rx" and parts[1] == "H":
            sid = int(parts[2])
            o = h.rx([wire.headers(sid, sb(H.REQ_POST))], ("headers", sid, False, False))
            if o.kind == "raise":
                st.dead = True
                return Step("rx-H-conn-error", viols, prune=True)
            return Step("rx-H-" + ("ok" if not o.frames else "stream-error"), viols)
        if parts[0] == "rst":
            o = h.api("reset_stream", int(parts[1]))
            out = "rst-" + o.kind
        elif parts[0] == "push":
            parent = int(parts[1])
            promised = h.m.hi_local + 2 if h.m.hi_local else 2
            hdrs = list(REQ) + [fresh("push%d" % parent)]
            if parts[2] == "big":
                hdrs = hdrs + [(b"x-big", b"Z" * 20000)]
            if parts[2] == "bad":
                hdrs = [x for x in hdrs if x[0] != b":scheme"]
            elif parts[2] == "lowid":
                promised = h.m.hi_local
            elif parts[2] == "oddid":
                promised = 9
            o = h.api("push_stream", parent, promised, hdrs)
            if parts[2] in ("ok", "big"):
                expect_list = ("push", hdrs)
            out = "push-" + o.kind
        else:
            sid = int(parts[1])
            btype, hdrs, es, kw = self.V[parts[2]]
            kw = dict(kw)
            if kw.get("priority_depends_on") == "SELF":
                kw["priority_depends_on"] = sid
            noval = kw.pop("_novalidate", False)
            if noval:
                h.conn.config.validate_outbound_headers = False
            try:
                o = h.api("send_headers", sid, list(hdrs), end_stream=es, **kw)
            finally:
                if noval:
                    h.conn.config.validate_outbound_headers = True
            expect_list = (btype, hdrs)
            out = "h-%s-%s" % (parts[2], o.kind)
        # ---- oracle
        enc_after, dec_after = self._tables(st)
        if o.kind == "raise":
            if o.raw:
                bad("failed-call-emitted", "%s raised %s but emitted %s" % (call_desc, o.exc_name, o.brief()), exc=o.exc_name)
            if enc_after != enc_before:
                added = [e for e in enc_after if e not in enc_before]
                bad("failed-call-changed-compression-context",
                    "%s raised %s (%s) but the encoder's dynamic table changed: +%r" % (call_desc, o.exc_name, o.msg, added),
                    exc=o.exc_name, stage=classify_stage(o))
        else:
            if o.wire_error:
                bad("peer-cannot-decode", "%s: %s" % (call_desc, o.wire_error),
                    error=o.wire_error.split("(")[0].split(":")[-1].strip() + ":" + ("exceeded" if "exceeded" in o.wire_error else "other"),
                    table_size_settings_pending=st.n_resizes)
            elif expect_list is not None:
                btype, hdrs = expect_list
                # what was the block type really? a second header block on a stream is trailers
                blocks = o.blocks
                if len(blocks) != 1 or blocks[0][1] is None:
                    bad("unexpected-blocks", "%s emitted %s" % (call_desc, o.brief()))
                else:
                    got = [(n, v) for n, v, _ in blocks[0][1]]
                    want = [(n, v) for n, v, _ in HS.normalise_outbound(hdrs)]
                    if got != want:
                        bad("decoded-list-differs", "%s: peer decoded %r, call sent %r" % (call_desc, got, want))
        if o.kind == "ok" and o.blocks:
            st.resize_pending = False
            st.n_resizes = 0
        if enc_after != dec_after and not h.wdec_broken and not st.resize_pending:
            bad("tables-out-of-sync", "after %s: encoder table %r, peer decoder table %r" % (call_desc, enc_after, dec_after),
                after_raise=(o.kind == "raise"))
        if h.wdec_broken:
            st.dead = True
        if viols:
            st.dead = True
        return Step(out, viols)


def classify_stage(o):
    """coarse classification of where a raising header call failed (for the signature)"""
    w = o.where or ""
    if "_add_frame_priority" in w or o.exc_name == "RFC1122Error":
        return "priority"
    if "utilities." in w:
        return "validation"
    if "send_headers" in w and "Trailers" in (o.msg or ""):
        return "trailers-end-stream"
    return w


def make_spec(key):
    return Spec(key)


def run(ctx):
    for role in ("server", "client"):
        ctx.explore(("c13", role, ctx.tier), time_budget=None if ctx.tier == "quick" else 300)
