"""C09 - stream identifiers are allocated and checked per RFC 7540 section 5.1.1.

Explicit-state BFS of one real connection (each role) in product with an
identifier model (parity, per-initiator watermarks, 2^31-1 ceiling, how each
used id was closed).  Actions: locally opened / promised ids chosen in any
order from a boundary set (out-of-order ids included); peer HEADERS /
PUSH_PROMISE with ids from the same set in any order, on ids that were reset,
ended or implicitly skipped, before and after the library forgot them;
PRIORITY on every id at every point; get_next_available_stream_id() observed
after every step.

Oracle: ids on the wire are strictly increasing per initiator, of the
endpoint's parity and <= 2^31-1; get_next_available_stream_id is the smallest
such id, NoAvailableStreamIDError when none is left; a peer opening with wrong
parity or an id not above the peer's highest is a stream error if that stream
was reset, a STREAM_CLOSED connection error if it ended normally, a
PROTOCOL_ERROR connection error otherwise; a PRIORITY frame yields only
PriorityUpdated and leaves the stream-and-flow projection of the state (and
therefore every future) unchanged.
"""
from .. import harness as H
from .. import wire
from ..canon import fingerprint
from ..explorer import Step
from ..models import streams as SM

PROPERTY = "C09"
TOP = 2 ** 31 - 1
sb = H.stateless_block
CLIENT_LOCAL_IDS = [1, 3, 5, 7, 2, 0, TOP - 2, TOP, TOP + 2]
SERVER_PEER_IDS = [1, 3, 5, 7, 2, 4, TOP - 2, TOP]
PROMISED = [2, 4, 6, 3, 0, TOP - 1, TOP + 1]
PRIO_IDS = [1, 2, 3, 4, 5, TOP]
ALPHABET = ("client opens ids %s; server receives HEADERS on %s; promised ids %s (push_stream / PUSH_PROMISE); reset / end / cleanup; PRIORITY on %s"
            % (CLIENT_LOCAL_IDS, SERVER_PEER_IDS, PROMISED, PRIO_IDS))
BOUNDS = {"quick": "depth 5 per role", "thorough": "depth 7 per role (or time budget, reported)"}


class S:
    pass


class Spec:
    def __init__(self, key):
        _, role, tier = key
        self.client = role == "client"
        self.tier = tier
        self.name = "c09-%s-%s" % (role, tier)
        self.max_depth = 5 if tier == "quick" else 7

    def initial(self):
        st = S()
        st.h = H.Solo(self.client)
        st.dead = False
        st.wire_hi = 0          # highest id we have put on the wire as initiator
        out = [("handshaken", st)]
        # a start state two steps on (two streams of the client open), so that the depth bound reaches histories like:
        # promise a high id, reset a stream, a promise on the reset stream is refused, promise a lower id
        import pickle
        st2 = pickle.loads(pickle.dumps(st))
        for lab in (("l:req:1", "l:req:3") if self.client else ("rx:H:1", "rx:H:3")):
            step = self.apply(st2, lab)
            assert not step.violations and not st2.dead, lab
        out.append(("two-streams-open", st2))
        if self.client:
            # an h2c-upgraded client: stream 1 was used by the upgrade request
            st4 = S()
            st4.h = H.Solo(True, handshake=False)
            st4.h.conn.initiate_upgrade_connection()
            o = st4.h.rx([wire.settings([])])
            assert o.kind == "ok", o.brief()
            st4.h.m.upgrade()
            st4.dead = False
            st4.wire_hi = 1
            out.append(("upgraded", st4))
            # the same with the PEER's MAX_CONCURRENT_STREAMS at 2: the next open is refused for concurrency - and must not
            # have used up its id or left anything behind; once a stream has finished the same id opens
            st3 = pickle.loads(pickle.dumps(st))
            o = st3.h.rx([wire.settings([(wire.S_MAX_CONCURRENT_STREAMS, 2)])])
            assert o.kind == "ok", o.brief()
            for lab in ("l:req:1", "l:req:3"):
                step = self.apply(st3, lab)
                assert not step.violations and not st3.dead, lab
            st3.peer_limit = 2
            out.append(("two-streams-open-at-peer-limit-2", st3))
        if not self.client:
            # the same with the local MAX_CONCURRENT_STREAMS lowered to 2 and acknowledged: the connection is AT its limit,
            # which must not matter for frames that open nothing (late HEADERS on streams that are gone)
            st3 = pickle.loads(pickle.dumps(st))
            for o in (st3.h.rx([wire.settings([], ack=True)]), st3.h.api("update_settings", {wire.S_MAX_CONCURRENT_STREAMS: 2}),
                      st3.h.rx([wire.settings([], ack=True)])):
                assert o.kind == "ok", o.brief()
            for lab in ("rx:H:1", "rx:H:3"):
                step = self.apply(st3, lab)
                assert not step.violations and not st3.dead, lab
            st3.at_limit = 2
            out.append(("two-streams-open-at-limit-2", st3))
        return out

    def fingerprint(self, st):
        return fingerprint(st.h.conn, st.h.m.key(), st.dead, st.wire_hi)

    # ------------------------------------------------------------------
    def _live(self, st):
        return sorted(s for s, x in st.h.m.streams.items() if x.state != SM.CLOSED)

    def actions(self, st):
        if st.dead:
            return []
        m = st.h.m
        acts = []
        live = self._live(st)
        if self.client:
            for i in CLIENT_LOCAL_IDS:
                if i not in live:
                    acts.append("l:req:%d" % i)
            parents = [s for s in live if s % 2 == 1]
            if parents:
                for p in PROMISED:
                    if p <= TOP:
                        acts.append("rx:PP:%d:%d" % (parents[0], p))      # also ids of streams that are live right now
                acts.append("rx:PPR:%d:4" % parents[0])
            for s_ in live:
                if m.streams[s_].state == SM.RES_REMOTE:
                    acts.append("rx:resp:%d" % s_)           # the pushed response starts: the promised stream is open now
            # an informational response on a stream of ours that is closed but not forgotten yet
            for s_, x in sorted(m.streams.items()):
                if x.local_init and x.state == SM.CLOSED and m.status(s_) == "closed":
                    acts.append("rx:Hinfo:%d" % s_)
                    break
            # response HEADERS still in flight on a promised stream that is over (reset by us or by the peer, refused, or
            # ended), before and after the library forgot it
            for s_, x in sorted(m.streams.items()):
                if x.pushed and x.state == SM.CLOSED:
                    acts.append("rx:Hlate:%d" % s_)
                    break
            for s in live:
                if m.streams[s].local_init and not m.streams[s].pushed:
                    acts.append("finish:%d" % s)
            # PUSH_PROMISE frames that were in flight when the application reset their parent stream
            for s, x in sorted(m.streams.items()):
                if s % 2 == 1 and x.state == SM.CLOSED and x.closed_by == "send_rst":
                    for p in PROMISED[:4]:
                        if p not in live:
                            acts.append("rx:PP:%d:%d" % (s, p))
                    break
        else:
            for i in SERVER_PEER_IDS:
                if i not in live:
                    acts.append("rx:H:%d" % i)
            parents = [s for s in live if s % 2 == 1 and m.streams[s].state in (SM.OPEN, SM.HC_REMOTE)]
            if parents:
                for p in PROMISED:
                    if p not in live:
                        acts.append("l:push:%d:%d" % (parents[0], p))
                for p in (2, 4, 6, TOP - 1):
                    if p not in live:
                        acts.append("l:badpush:%d:%d" % (parents[0], p))     # refused for its header list, whatever the id
            for s in live:
                if not m.streams[s].local_init:
                    acts.append("finish:%d" % s)
        for s in live:
            acts.append("l:rst:%d" % s)
            acts.append("rx:R:%d" % s)
        # RST_STREAM for an id the peer skipped (it never was a stream): ignored, and it stays an id that was never a stream
        for i in (SERVER_PEER_IDS if not self.client else PROMISED):
            if 0 < i <= TOP and m.status(i) == "unused_low":
                acts.append("rx:Rlow:%d" % i)
                break
        acts.append("cleanup")
        for i in PRIO_IDS:
            acts.append("prio:%d" % i)
        return acts

    def apply(self, st, lab):
        viols = []
        h = st.h
        m = h.m

        def bad(kind, msg, **sig):
            s = {"kind": kind, "role": "client" if self.client else "server"}
            s.update(sig)
            viols.append({"kind": kind, "sig": s, "msg": msg})

        parts = lab.split(":")
        out = parts[0] + (":" + parts[1] if len(parts) > 1 and not parts[1].isdigit() else "")
        if lab == "cleanup":
            h.cleanup()
        elif parts[0] == "prio":
            sid = int(parts[1])
            p0 = H.stream_flow_projection(h.conn)
            o = h.rx([wire.priority(sid, 0, 5, False)])
            evs = o.events if o.kind == "ok" else []
            if not (o.kind == "ok" and len(evs) == 1 and type(evs[0]).__name__ == "PriorityUpdated" and not o.raw):
                bad("priority-not-just-event", "PRIORITY on id %d (%s) -> %s" % (sid, m.status(sid), o.brief()), status=m.status(sid))
            elif H.stream_flow_projection(h.conn) != p0:
                bad("priority-changed-state", "PRIORITY on id %d (%s) changed stream/flow state" % (sid, m.status(sid)), status=m.status(sid))
        elif parts[:2] == ["rx", "Rlow"]:
            sid = int(parts[2])
            o = h.rx([wire.rst_stream(sid, 8)])
            if o.kind == "raise":
                st.dead = True          # (treating it as a connection error is within RFC 7540 6.4 as well)
                return Step("rlow-conn-error", viols, prune=True)
            if o.events or o.frames:
                bad("rst-on-skipped-id-had-effect", "RST_STREAM on the skipped id %d -> %s" % (sid, o.brief()))
        elif parts[0] == "finish":
            sid = int(parts[1])
            # end the stream normally in both directions
            if self.client:
                if m.streams[sid].state in (SM.OPEN, SM.HC_REMOTE):
                    h.api("end_stream", sid)
                if m.streams[sid].state != SM.CLOSED:
                    h.rx([wire.headers(sid, sb(H.RESP), es=True)], ("headers", sid, True, False))
            else:
                if m.streams[sid].state in (SM.OPEN, SM.HC_LOCAL):
                    h.rx([wire.data(sid, b"", es=True)], ("data", sid, True))
                if m.streams[sid].state != SM.CLOSED:
                    h.api("send_headers", sid, H.ni(H.RESP), end_stream=True)
            if m.streams[sid].state != SM.CLOSED:
                return Step("finish-incomplete", viols, prune=True)
        elif parts[:2] == ["l", "rst"]:
            o = h.api("reset_stream", int(parts[2]))
            if o.kind != "ok":
                bad("reset-failed", "%s -> %s" % (lab, o.brief()))
        elif parts[:2] == ["rx", "R"]:
            o = h.rx([wire.rst_stream(int(parts[2]), 8)], ("rst", int(parts[2])))
            if o.kind != "ok":
                bad("rst-rejected", "%s -> %s" % (lab, o.brief()))
        elif parts[:2] == ["l", "badpush"]:
            parent, sid = int(parts[2]), int(parts[3])
            o = h.api("push_stream", parent, sid, H.ni([x for x in H.REQ if x[0] != b":path"]))
            if o.kind == "ok":
                bad("invalid-push-accepted", "push_stream with a request list without :path succeeded: %s" % o.brief())
                st.dead = True
                return Step("badpush-accepted", viols, prune=True)
            if not o.is_h2:
                bad("non-h2-exception", "push_stream(%d) raised %s" % (sid, o.exc_name), exc=o.exc_name)
            if o.raw:
                bad("refused-open-emitted", "push_stream(%d) raised but emitted %s" % (sid, o.brief()))
            out += "-refused"      # no id has been used: the next-id observation below and later opens decide
        elif parts[:2] == ["l", "req"] or parts[:2] == ["l", "push"]:
            if parts[1] == "req":
                sid = int(parts[2])
                status = m.status(sid)
                o = h.api("send_headers", sid, H.ni(H.REQ))
            else:
                parent, sid = int(parts[2]), int(parts[3])
                status = m.status(sid)
                o = h.api("push_stream", parent, sid, H.ni(H.REQ))
            own = (sid % 2 == 1) == self.client and sid > 0
            legal = own and sid > m_hi_before(st, sid, o) and sid <= TOP
            # model watermark before the call: absorb_output may already have advanced it
            if o.kind == "ok":
                opened = [f for f in o.frames if f.type in (wire.HEADERS, wire.PUSH_PROMISE)]
                wid = None
                if opened:
                    wid = opened[0].sid if opened[0].type == wire.HEADERS else opened[0].f["promised"]
                if sid > TOP or sid <= 0 or not own:
                    bad("illegal-id-accepted", "%s succeeded with id %d (wire shows %r)" % (parts[1], sid, wid),
                        why=("above-2^31-1" if sid > TOP else "zero" if sid == 0 else "wrong-parity"))
                    st.dead = True
                    return Step("illegal-id-accepted", viols, prune=True)
                if wid != sid:
                    bad("wire-id-differs", "%s(%d) put id %r on the wire" % (parts[1], sid, wid))
                if sid <= st.wire_hi:
                    bad("non-increasing-id-accepted", "%s(%d) succeeded after id %d was already used" % (parts[1], sid, st.wire_hi))
                    st.dead = True
                    return Step("low-id-accepted", viols, prune=True)
                st.wire_hi = sid
                out += "-ok"
            else:
                at_peer_limit = (getattr(st, "peer_limit", None) and parts[1] == "req" and o.exc_name == "TooManyStreamsError" and
                                 m.count_open(True) >= st.peer_limit)
                if own and 0 < sid <= TOP and sid > st.wire_hi and status == "unused_high" and not at_peer_limit:
                    bad("legal-id-refused", "%s with fresh id %d (highest used %d) refused: %s" % (parts[1], sid, st.wire_hi, o.brief()),
                        exc=o.exc_name)
                if not o.is_h2:
                    bad("non-h2-exception", "%s(%d) raised %s" % (parts[1], sid, o.exc_name), exc=o.exc_name)
                if o.raw:
                    bad("refused-open-emitted", "%s(%d) raised but emitted %s" % (parts[1], sid, o.brief()))
                out += "-refused"
                # the path goes on: a refused open must not have used up an id (get_next_available_stream_id is
                # observed below, later opens are judged against the unchanged model)
        elif parts[:2] == ["rx", "resp"]:
            sid = int(parts[2])
            o = h.rx([wire.headers(sid, sb(H.RESP))], ("headers", sid, False, False))
            if o.kind != "ok" or o.frames:
                bad("pushed-response-rejected", "%s -> %s" % (lab, o.brief()))
                st.dead = True
                return Step("resp-rejected", viols, prune=True)
        elif parts[:2] in (["rx", "Hinfo"], ["rx", "Hlate"]):
            sid = int(parts[2])
            s0 = m.get(sid)
            exp = ("SE", wire.STREAM_CLOSED) if s0.closed_by in ("send_rst", "recv_rst") else ("CE", wire.STREAM_CLOSED)
            o = h.rx([wire.headers(sid, sb([(b":status", b"103")] if parts[1] == "Hinfo" else H.RESP))])
            got = classify(o, sid)
            if got != exp and not (got == ("OK", None) and exp[0] == "SE" and not o.events):
                bad("peer-open-wrong-outcome", "%s HEADERS on stream %d (%s, closed_by=%s): expected %s, got %s [%s]" % (
                    "1xx" if parts[1] == "Hinfo" else "late response", sid, m.status(sid), s0.closed_by, show(exp), show(got), o.brief()),
                    frame=parts[1], status=m.status(sid), closed_by=str(s0.closed_by),
                    expected=show(exp), got=show(got), zero=False)
            if o.kind == "raise":
                st.dead = True
                return Step("peer-open-" + show(got), viols, prune=True)
            out = "peer-open-" + show(got)
        elif parts[:2] == ["rx", "H"] or parts[:2] == ["rx", "PP"] or parts[:2] == ["rx", "PPR"]:
            rbit = parts[1] == "PPR"          # the reserved bit in front of the promised id is set: to be ignored (RFC 7540 6.6)
            if rbit:
                parts = ["rx", "PP"] + parts[2:]
            if parts[1] == "H":
                sid = int(parts[2])
                fr = wire.headers(sid, sb(H.REQ))
                meta = ("headers", sid, False, False)
            else:
                parent, sid = int(parts[2]), int(parts[3])
                fr = wire.push_promise(parent, sid, sb(H.REQ))
                if rbit:
                    import struct
                    fr = wire.raw(wire.PUSH_PROMISE, 4, parent, struct.pack(">I", 0x80000000 | sid) + sb(H.REQ))
                meta = ("push", parent, sid)
            status = m.status(sid)
            s0 = m.get(sid)
            closed_by = s0.closed_by if s0 is not None else None
            peer_parity = (sid % 2 == 1) != self.client and sid > 0
            if getattr(st, "at_limit", None) and parts[1] == "H" and status == "unused_high" and m.count_open(False) >= st.at_limit:
                return Step("over-the-limit(C10)", viols, prune=True)
            o = h.rx([fr], meta)
            if sid == 0 or (not peer_parity and status.startswith("unused")) or status == "live":
                exp = ("CE", wire.PROTOCOL_ERROR)          # (live: the id names a stream that exists right now)
            elif status == "unused_high":
                exp = ("OK", None)
            elif status == "unused_low":
                exp = ("CE", wire.PROTOCOL_ERROR)
            elif closed_by in ("send_rst", "recv_rst"):
                exp = ("SE", wire.STREAM_CLOSED)
            else:
                exp = ("CE", wire.STREAM_CLOSED)
            got = classify(o, sid)
            # an id of the receiver's own parity can never be opened by the peer: PROTOCOL_ERROR is always a
            # correct answer there, besides the closed-stream rule when such a stream exists
            alt = ("CE", wire.PROTOCOL_ERROR) if not peer_parity else exp
            if parts[1] == "PP":
                ps = m.get(parent)
                if ps is not None and ps.state == SM.CLOSED and ps.closed_by == "send_rst":
                    # the parent was reset by the application: the promise raced the reset and is refused (C20, C22);
                    # for an id that could not be promised anyway the connection error stays a correct answer
                    if peer_parity and status == "unused_high":
                        exp = alt = ("SE", wire.REFUSED_STREAM)
                    elif got == ("SE", wire.REFUSED_STREAM):
                        exp = got
            if rbit and got == ("CE", wire.PROTOCOL_ERROR):
                pass          # refusing the frame outright is tolerated; acting on an id above 2^31-1 is not
            elif rbit and o.kind == "ok" and any(getattr(e, "pushed_stream_id", sid) != sid for e in o.events):
                bad("reserved-bit-not-ignored", "PUSH_PROMISE promising %d with the reserved bit set was taken as a promise of stream %r" % (
                    sid, [getattr(e, "pushed_stream_id", None) for e in o.events]))
                st.dead = True
                return Step("peer-open-rbit", viols, prune=True)
            elif got != exp and got != alt:
                bad("peer-open-wrong-outcome",
                    "peer %s with id %d (%s, closed_by=%s): expected %s, got %s [%s]" % (
                        "HEADERS" if parts[1] == "H" else "PUSH_PROMISE", sid, status, closed_by, show(exp), show(got), o.brief()),
                    frame=parts[1], status=("forgotten" if status == "maybe_forgotten" else status), closed_by=str(closed_by),
                    expected=show(exp), got=show(got), zero=(sid == 0))
            if o.kind == "raise":
                st.dead = True
                return Step("peer-open-" + show(got), viols, prune=True)
            out = "peer-open-" + show(got)
        else:
            raise ValueError(lab)
        # ---- get_next_available_stream_id
        if not st.dead and not viols:
            base = st.wire_hi
            nxt = (base + 2) if base else (1 if self.client else 2)
            o = H.call(h.conn, "get_next_available_stream_id")
            if nxt > TOP:
                if not (o.kind == "raise" and o.exc_name == "NoAvailableStreamIDError"):
                    bad("next-id-wrong", "get_next_available_stream_id -> %s, expected NoAvailableStreamIDError (highest used %d)" % (o.brief(), base))
            elif not (o.kind == "ok" and o.ret == nxt):
                bad("next-id-wrong", "get_next_available_stream_id -> %r (%s), expected %d (highest used %d)" % (o.ret, o.brief(), nxt, base),
                    after=parts[0])
        if viols:
            st.dead = True
        return Step(out, viols)


def m_hi_before(st, sid, o):
    return st.wire_hi


def classify(o, sid):
    if o.kind == "raise":
        return ("CE", int(o.code) if o.is_proto else -1)
    rs = [f for f in o.frames if f.type == wire.RST_STREAM and f.sid == sid]
    if rs:
        return ("SE", rs[0].f["code"])
    return ("OK", None)


def show(x):
    return x[0] if x[1] is None else "%s(%s)" % (x[0], wire.err_name(x[1]) if x[1] >= 0 else "non-protocol")


def make_spec(key):
    return Spec(key)


def run(ctx):
    for role in ("server", "client"):
        ctx.explore(("c09", role, ctx.tier), time_budget=None if ctx.tier == "quick" else 300)
