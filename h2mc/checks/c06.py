"""C06 - stream lifecycle follows the RFC 7540 section 5.1 state machine.

Explicit-state BFS (to closure in the thorough tier) of the product of one
real connection and the RFC 5.1 reference machine (models/streams) over: local
send_headers (request / response / 1xx / trailers, +-END_STREAM),
send_data(+-END_STREAM), end_stream, reset_stream, push_stream,
increment_flow_control_window; received HEADERS (request / response / 1xx /
trailers, +-END_STREAM), DATA(+-END_STREAM), RST_STREAM, WINDOW_UPDATE,
PUSH_PROMISE, naked CONTINUATION; and the explicit cleanup that makes the
library forget closed streams.  Configurations: server and client; focus
stream + auxiliary stream of the same initiator (implicit closing, "higher id
opened"); a promised stream (reserved local / remote); start states
post-handshake and h2c-upgraded.

Oracle: per step the observation class (accepted / silently ignored / stream
error with code / connection error with code; local call succeeds / raises
which exception) must be in the reference machine's allowed set for that
state.  Library leniencies are admitted only from the documented table
(DESIGN.md Appendix B).  A path ends at the first refused local call (its
aftermath is C01's business) and at the first connection error.
"""
from .. import lifecycle as L
from .. import wire
from ..models import streams as SM

PROPERTY = "C06"
ALPHABET = "see h2mc/lifecycle.py: ~45 actions per role on streams {1,3} + promised stream 2, plus cleanup"
BOUNDS = {"quick": "depth 6, both roles, handshaken and h2c-upgraded start states; depth 5 with validate_outbound_headers=False",
          "thorough": "closure (or the per-harness time budget, reported), both roles, both start states"}


def show(x):
    if isinstance(x, (set, frozenset)):
        return "{" + ", ".join(sorted(show(y) for y in x)) + "}"
    if isinstance(x, tuple):
        if len(x) == 2:
            return "%s(%s)" % (x[0], wire.err_name(x[1]) if isinstance(x[1], int) and x[1] >= 0 else x[1])
        return x[0]
    return str(x)


class Spec(L.Spec):
    go_on_after_refusal = True

    def __init__(self, key):
        _, role, start, tier = key
        depth = (5 if start == "handshaken-nocheck" else 6) if tier == "quick" else None
        super().__init__(role == "client", depth, upgraded=(start == "upgraded"))
        if start == "handshaken-nocheck":
            # the state machine - which calls succeed, which frames are accepted - is the same whether or not the header
            # lists the application passes are checked
            self.cfg = {"validate_outbound_headers": False}
        self.name = "c06-%s-%s-%s" % (role, start, tier)
        f, aux = self.sids
        # a WINDOW_UPDATE that overflows the stream's send window (the library must reset the stream, which then IS reset), and a
        # header block on the focus stream continued on the auxiliary stream
        self.menu = self.menu[:-1] + ["rx:wuover:%d" % f, "rx:splitcont:%d" % f] + self.menu[-1:]
        # ten bytes of DATA, and the peer's INITIAL_WINDOW_SIZE dropping to 0 afterwards: the stream's send window is negative
        # then, which forbids nothing that carries no flow-controlled byte (end_stream, empty DATA, headers, reset)
        self.menu = self.menu[:-1] + ["l:data10:%d" % f, "rx:iws0:0"] + self.menu[-1:]
        if not self.client:
            # the local alt-svc action of the quantifier: whatever it does (C24 judges that), it is no stream transition
            self.menu = self.menu[:-1] + ["l:altsvc:%d" % self.sids[0]] + self.menu[-1:]

    def actions(self, st):
        acts = super().actions(st)
        if st.extra.get("iws0"):
            # (the window arithmetic of an overflowing WINDOW_UPDATE is C03's; the model here does not follow windows, so the
            # two actions are kept apart)
            acts = [a for a in acts if not a.startswith("rx:wuover:") and a != "rx:iws0:0"]
        return acts

    def execute(self, st, lab):
        if lab.startswith("rx:wuover:") or lab.startswith("rx:splitcont:"):
            sid = int(lab.split(":")[2])
            m = st.h.m
            s = m.get(sid)
            info = {"dir": "rx", "kind": lab.split(":")[1], "es": False, "sid": sid, "status": m.status(sid),
                    "state": s.state if s is not None else "idle", "closed_by": s.closed_by if s is not None else None,
                    "sent": s.sent if s is not None else "none", "recv": s.recv if s is not None else "none"}
            if info["kind"] == "wuover":
                base = SM.recv_verdict(m, "wu", sid)
                info["verdict"] = {("SE", wire.FLOW_CONTROL_ERROR)} if SM.OK in base else base
                o = st.h.rx([wire.window_update(sid, 2 ** 31 - 1)])
            else:
                blk = L.sb(L.BLOCKS["trailers"])
                info["verdict"] = {("CE", wire.PROTOCOL_ERROR)}
                o = st.h.rx([wire.headers(sid, blk[:3], es=True, eh=False), wire.continuation(self.sids[1], blk[3:])])
            return o, info
        if lab.startswith("l:data10:"):
            sid = int(lab.split(":")[2])
            m = st.h.m
            s = m.get(sid)
            info = {"dir": "l", "kind": "data", "es": False, "sid": sid, "status": m.status(sid),
                    "state": s.state if s is not None else "idle", "closed_by": s.closed_by if s is not None else None,
                    "sent": s.sent if s is not None else "none", "recv": s.recv if s is not None else "none",
                    "verdict": SM.send_verdict(m, "data", sid, False)}
            if st.extra.get("iws0"):
                info["verdict"] = {"FlowControlError", "ProtocolError", "StreamClosedError", "NoSuchStreamError"} if info["verdict"] == "ok" else info["verdict"]
            return st.h.api("send_data", sid, b"x" * 10), info
        if lab == "rx:iws0:0":
            info = {"dir": "rx", "kind": "iws0", "es": False, "sid": 0}
            o = st.h.rx([wire.settings([(wire.S_INITIAL_WINDOW_SIZE, 0)])])
            if o.kind == "ok":
                st.extra["iws0"] = True
            return o, info
        if lab.startswith("l:altsvc:"):
            sid = int(lab.split(":")[2])
            m = st.h.m
            s = m.get(sid)
            info = {"dir": "l", "kind": "altsvc", "es": False, "sid": sid, "status": m.status(sid),
                    "state": s.state if s is not None else "idle", "closed_by": s.closed_by if s is not None else None,
                    "sent": s.sent if s is not None else "none", "recv": s.recv if s is not None else "none"}
            return st.h.api("advertise_alternative_service", b'h2=":443"', stream_id=sid), info
        if self.cfg and lab.startswith("l:hdr:") and lab.split(":")[3] != "info":
            # without outbound validation the library cannot tell what a header list is except by its position: the first
            # block sent on a stream is the request / the response and a later one the trailers, whatever they contain (what
            # they contain is C08's business); only 1xx blocks are recognised by their :status
            sid = int(lab.split(":")[2])
            s = st.h.m.get(sid)
            sent = "none" if s is None else s.sent
            positional = ("request" if self.client else "response") if sent == "none" else "trailers" if sent == "final" else None
            if positional:
                v = SM.send_verdict(st.h.m, "headers", sid, lab.endswith(":es"), positional)
                o, info = super().execute(st, lab)
                info["verdict"] = v
                return o, info
        return super().execute(st, lab)

    def judge(self, st, lab, info, o, bad):
        if lab.startswith("l:data10:"):
            lab = "l:data:" + lab.split(":")[2]      # ten bytes instead of none: the same action as far as the state machine goes
        if info["kind"] == "iws0":
            if o.kind != "ok":
                bad("settings-rejected", "%s -> %s" % (lab, o.brief()))
            return "rx-iws0-" + o.kind
        state_desc = info["state"] if info["state"] != "closed" else "closed/%s" % info["closed_by"]
        if info["dir"] == "l":
            if info["kind"] == "push":
                return "push-" + o.kind         # judged by C22
            if info["kind"] == "altsvc":
                if o.kind == "raise" and not o.is_h2:
                    bad("non-h2-exception", "%s in state %s raised %s" % (lab, state_desc, o.exc_name), action="altsvc", got=o.exc_name)
                return "altsvc-" + o.kind       # acceptance is judged by C24; here only what follows matters
            v = info["verdict"]
            got = "ok" if o.kind == "ok" else o.exc_name
            if v == "ok" and info["kind"] == "data" and st.extra.get("iws0") and got == "FlowControlError":
                # send_data on a window that INITIAL_WINDOW_SIZE 0 may have made negative: whether zero bytes "fit" a negative
                # window is not specified (C03 leaves it open too); end_stream() is - it must succeed
                return "l-" + got
            if v == "ok":
                if o.kind != "ok":
                    bad("permitted-send-refused",
                        "%s in state %s (sent=%s): RFC permits it, library raised %s: %s" % (lab, state_desc, info["sent"], o.exc_name, o.msg),
                        action=":".join(lab.split(":")[1:2] + lab.split(":")[3:]), state=state_desc, sent=info["sent"], got=got)
            else:
                if o.kind == "ok":
                    bad("forbidden-send-accepted",
                        "%s in state %s (sent=%s, recv=%s): must be refused (%s), library emitted %s" % (
                            lab, state_desc, info["sent"], info["recv"], "/".join(sorted(v)), o.brief()),
                        action=":".join(lab.split(":")[1:2] + lab.split(":")[3:]), state=state_desc, sent=info["sent"])
                elif not o.is_h2:
                    bad("non-h2-exception", "%s in state %s raised %s" % (lab, state_desc, got), action=lab.split(":")[1], got=got)
                if o.kind == "raise" and o.raw:
                    bad("refused-send-emitted", "%s raised %s but emitted %s" % (lab, got, o.brief()), action=lab.split(":")[1])
            return "l-" + got
        v = info["verdict"]
        got = SM.classify_obs(o, info["sid"], info.get("promised"))
        if o.kind == "raise" and not o.is_proto:
            bad("non-protocol-exception", "%s raised %s" % (lab, o.exc_name), exc=o.exc_name)
        elif got not in v:
            bad("recv-verdict",
                "%s in state %s (recv=%s, status=%s): RFC machine allows %s, library did %s [%s]" % (
                    lab, state_desc, info["recv"], info["status"], show(v), show(got), o.brief()),
                frame=":".join(lab.split(":")[1:2] + lab.split(":")[3:]), state=state_desc, recv=info["recv"],
                forgotten=info["status"] in ("forgotten", "maybe_forgotten"), allowed=show(v), got=show(got))
        if got[0] == "SE" and o.kind == "ok":
            evs = [e for e in o.events if type(e).__name__ == "StreamReset"]
            if info["state"] not in ("closed", "idle") and (len(evs) != 1 or evs[0].remote_reset is not False):
                bad("stream-error-event", "%s: stream error without a single local StreamReset event: %s" % (
                    lab, [type(e).__name__ for e in o.events]))
        return "rx-" + show(got)


def make_spec(key):
    return Spec(key)


def run(ctx):
    quick = ctx.tier == "quick"
    for role in ("server", "client"):
        for start in ("handshaken", "upgraded", "handshaken-nocheck"):
            ctx.explore(("c06", role, start, ctx.tier), time_budget=None if quick else 240)
