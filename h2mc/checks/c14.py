"""C14 - outbound header blocks are normalised and RFC 7540 section 8.1.2 conformant.

Bounded-exhaustive input fan-out: for each block type (request, response,
informational, trailers, push) a canonical valid list, then EVERY list within
edit distance <= 2 (insert / delete / replace / swap) of it over a token
alphabet of ~36 (name, value) pairs - each pseudo-header (right and wrong
role, custom, duplicate), host/Host agreeing and disagreeing, the
connection-specific names in lower and mixed case, te with trailers / gzip,
cookies of 19 / 20 bytes, authorization, proxy-authorization, surrounding
whitespace, upper-case names, empty value, empty :path - in bytes, str and
HeaderTuple forms, under all four normalise x validate configurations.  Each
list is sent with send_headers / push_stream on a clone of an explored state
of the real connection; the emission is decoded by an independent HPACK
decoder.

Oracle: models/headers_spec.expected_outbound(cfg, block type, list) gives
either "refused" or the exact list (with never-indexed marks) that must
appear on the wire; only the rules a configuration promises are demanded.
"""
import pickle

import hpack
from hpack import HeaderTuple, NeverIndexedHeaderTuple

from .. import corpus
from .. import harness as H
from .. import wire
from ..models import headers_spec as HS

PROPERTY = "C14"
TECHNIQUE = "bounded-exhaustive enumeration of header lists (all lists within an edit-distance bound over a token alphabet) executed on the real connection, emission decoded independently and compared with an RFC 7540 8.1.2 reference model"
RULE = ("one evaluation = one (configuration, block type, header list, form) sent on a clone of the start state; "
        "non-trivial = the reference model refuses it or normalisation changes it")

TOKENS = [
    (b":method", b"GET"), (b":method", b"POST"), (b":scheme", b"https"), (b":path", b"/"), (b":path", b""),
    (b":authority", b"example.com"), (b":authority", b"other.com"), (b":status", b"200"), (b":status", b"100"),
    (b":custom", b"x"), (b":protocol", b"websocket"),
    (b"host", b"example.com"), (b"Host", b"example.com"), (b"host", b"other.com"),
    (b"connection", b"close"), (b"Connection", b"close"), (b"proxy-connection", b"x"), (b"keep-alive", b"x"),
    (b"transfer-encoding", b"chunked"), (b"upgrade", b"h2c"), (b" Upgrade ", b"x"),
    (b"te", b"trailers"), (b"te", b"gzip"), (b"TE", b"trailers"),
    (b"cookie", b"a" * 19), (b"cookie", b"a" * 20), (b"authorization", b"secret"), (b"proxy-authorization", b"secret"),
    (b"Authorization", b"secret"),
    (b" x-ws ", b" v "), (b"x-tab", b"\t\r\nv\x0b\x0c\t"), (b"X-Upper", b"V"), (b"x-empty", b""), (b"x-a", b"1"),
    (b"content-type", b"text/plain"), (b":Method", b"GET"),
    # fields that only become sensitive / comparable once they are normalised, and empty values of the two fields that must agree
    (b"authorization ", b"secret"), (b" Proxy-Authorization", b"s"), (b" cookie", b"sid=1"), (b"cookie", b"  " + b"a" * 17 + b"  "),
    (b"host", b""), (b":authority", b""), (b"Host", b"   "),
    # extended CONNECT (RFC 8441), and legal names without any cased character
    (b":method", b"CONNECT"), (b"42", b"v"), (b"_", b"v"),
]
SMALL_TOKENS = [t for i, t in enumerate(TOKENS) if i in (0, 3, 4, 5, 7, 8, 9, 11, 14, 21, 22, 24, 26, 29, 31, 33)]
BASES = {
    "request": [(b":method", b"GET"), (b":scheme", b"https"), (b":path", b"/"), (b":authority", b"example.com"), (b"x-a", b"1")],
    "push": [(b":method", b"GET"), (b":scheme", b"https"), (b":path", b"/"), (b":authority", b"example.com"), (b"x-a", b"1")],
    "response": [(b":status", b"200"), (b"content-type", b"text/plain"), (b"x-a", b"1")],
    "info": [(b":status", b"100"), (b"x-a", b"1")],
    "trailers": [(b"x-a", b"1"), (b"content-type", b"text/plain")],
}
ALPHABET = "tokens: %s; forms: bytes tuples, str tuples, HeaderTuple, NeverIndexedHeaderTuple" % (TOKENS,)
BOUNDS = {"quick": "edit distance <= 2 over 46 tokens (default configuration) and over 16 tokens (other three configurations); forms on distance <= 1",
          "thorough": "edit distance <= 2 over 46 tokens in all four configurations; edit distance 3 over 16 tokens in the default configuration"}
CFGS = [(True, True), (True, False), (False, True), (False, False)]   # (normalize, validate)



def _init_toksets():
    TOKSETS["full"] = TOKENS
    TOKSETS["small"] = SMALL_TOKENS


def neighbours(lst, tokens):
    out = []
    n = len(lst)
    for i in range(n + 1):
        for t in tokens:
            out.append(lst[:i] + (t,) + lst[i:])
    for i in range(n):
        out.append(lst[:i] + lst[i + 1:])
        for t in tokens:
            if t != lst[i]:
                out.append(lst[:i] + (t,) + lst[i + 1:])
    for i in range(n - 1):
        out.append(lst[:i] + (lst[i + 1], lst[i]) + lst[i + 2:])
    return out


def ball(base, tokens, dist):
    seen = {tuple(base)}
    frontier = [tuple(base)]
    for _ in range(dist):
        nxt = []
        for l in frontier:
            for x in neighbours(l, tokens):
                if x not in seen:
                    seen.add(x)
                    nxt.append(x)
        frontier = nxt
    return sorted(seen)


_BALLS = {}
TOKSETS = {}
_init_toksets()


def lists_for(base_key, bases, tokset, dist, part):
    """part: 'd1' (distance<=1 over the full alphabet) | 'rest' (ball minus d1) | 'shell3'"""
    k = (base_key, tokset, dist, part)
    if k not in _BALLS:
        base = bases[base_key]
        full = TOKSETS["full"]
        if part == "d1":
            _BALLS[k] = ball(base, full, 1)
        elif part == "rest":
            d1 = set(ball(base, full, 1))
            _BALLS[k] = [l for l in ball(base, TOKSETS[tokset], dist) if l not in d1]
        else:
            inner = set(ball(base, TOKSETS[tokset], dist - 1))
            _BALLS[k] = [l for l in ball(base, TOKSETS[tokset], dist) if l not in inner]
    return _BALLS[k]


def start_state(btype, normalize, validate):
    cfg = (("normalize_outbound_headers", normalize), ("validate_outbound_headers", validate))
    if btype == "request":
        return True, corpus.state_blob(True, "handshaken", cfg)
    if btype == "trailers":
        return True, corpus.state_blob(True, "open", cfg)
    return False, corpus.state_blob(False, "open", cfg)


def do_call(conn, btype, headers, es=False):
    if es and btype in ("response", "request"):
        return H.call(conn, "send_headers", 1, headers, end_stream=True)
    if btype == "request":
        return H.call(conn, "send_headers", 1, headers)
    if btype == "trailers":
        return H.call(conn, "send_headers", 1, headers, end_stream=True)
    if btype == "push":
        return H.call(conn, "push_stream", 1, 2, headers)
    return H.call(conn, "send_headers", 1, headers)


def as_form(lst, form):
    if form == "bytes":
        return [(n, v) for n, v in lst]
    if form == "str":
        return [(n.decode("latin-1"), v.decode("latin-1")) for n, v in lst]
    if form == "HeaderTuple":
        return [HeaderTuple(n, v) for n, v in lst]
    if form == "NeverIndexed":
        return [NeverIndexedHeaderTuple(n, v) for n, v in lst]
    raise ValueError(form)


def judge(btype, normalize, validate, lst, form, viols, outcomes, conn=None, es=False, tag=None):
    headers = as_form(lst, form)
    if conn is None:
        client, blob = start_state(btype, normalize, validate)
        conn = pickle.loads(blob)
    # the library classifies 1xx on the raw list; if raw and normalised views disagree the block type is ambiguous
    eff = btype
    if btype in ("response", "info"):
        raw_info = HS.is_informational(headers)
        norm_info = HS.is_informational([(n, v) for n, v, _ in HS.normalise_outbound(headers)]) if normalize else raw_info
        if raw_info != norm_info:
            outcomes["unspecified"] = outcomes.get("unspecified", 0) + 1
            return False
        eff = "info" if raw_info else "response"
    exp = HS.expected_outbound(normalize, validate, eff, headers)
    if exp[0] == "emit" and any(not n for n, v, _ in exp[1]):
        exp = (HS.UNSPECIFIED, "empty header name")
    if exp[0] is HS.UNSPECIFIED:
        outcomes["unspecified"] = outcomes.get("unspecified", 0) + 1
        return False
    o = do_call(conn, btype, headers, es)
    case = {"btype": btype, "normalize": normalize, "validate": validate, "form": form,
            "list": [[n.hex(), v.hex()] for n, v in lst]}
    if tag:
        case.update(tag["case"])

    def bad(kind, msg, **sig):
        s = {"kind": kind, "btype": eff, "normalize": normalize, "validate": validate}
        if tag:
            s["after_refused_call"] = True
        s.update(sig)
        k = repr(sorted(s.items()))
        if k not in viols:
            viols[k] = {"kind": kind, "sig": s, "msg": "[%s n=%s v=%s %s] %r: %s" % (eff, normalize, validate, form, list(lst), msg),
                        "case": case}

    want = exp[1] if exp[0] == "emit" else None
    norm = HS.normalise_outbound(headers) if normalize else [(HS._b(h[0]), HS._b(h[1]), getattr(h, "indexable", True) is False) for h in headers]
    plain = [(n, v) for n, v, _ in norm]
    fully = HS.conformant(eff, plain)[0]
    changed = plain != [(HS._b(a), HS._b(b)) for a, b in lst] or any(x[2] for x in norm)
    if o.kind == "raise":
        outcomes["refused"] = outcomes.get("refused", 0) + 1
        if not o.is_proto:
            bad("refusal-not-protocol-error", "refused with %s (%s), expected ProtocolError" % (o.exc_name, o.msg), exc=o.exc_name)
        elif o.raw:
            bad("refused-but-emitted-bytes", "raised %s but emitted %d bytes" % (o.exc_name, len(o.raw)))
        if fully is True and want is not None:
            bad("conformant-refused", "a conformant %s block (after the configured normalisation: %r) was refused: %s: %s" % (
                eff, plain, o.exc_name, o.msg), exc=o.exc_name)
        return True
    outcomes["emitted" + ("-normalised" if changed else "")] = outcomes.get("emitted" + ("-normalised" if changed else ""), 0) + 1
    got = decode_block(o)
    if got is None:
        bad("emission-undecodable", "emitted block does not decode / wrong frames: %s" % o.brief())
        return changed
    if exp[0] == "refused":
        bad("nonconformant-emitted", "must be refused (%s) but was emitted as %r" % (exp[1], got), why=exp[1])
        return True
    if [(n, v) for n, v, _ in got] != plain:
        bad("wrong-emission", "emitted %r, expected %r" % (got, plain))
    elif normalize:
        # the sensitive fields must be never-indexed (other marks are the caller's / the encoder's business)
        wrong = [n for (n, v, ni) in got if (n in HS.SECURE or (n == b"cookie" and len(v) < 20)) and not ni]
        if wrong:
            bad("sensitive-field-indexable", "emitted %r: %r not never-indexed" % (got, wrong),
                names=",".join(sorted(set(x.decode("latin-1") for x in wrong))))
    return changed


def decode_block(o):
    try:
        items = wire.header_blocks(o.frames)
    except wire.WireError:
        return None
    blocks = [it for it in items if it[0] == "block"]
    if len(blocks) != 1:
        return None
    dec = hpack.Decoder()
    dec.max_header_list_size = 2 ** 31
    try:
        return [(bytes(h[0]), bytes(h[1]), not getattr(h, "indexable", True)) for h in dec.decode(blocks[0][2], raw=True)]
    except Exception:  # noqa: BLE001
        return None


def job(job):
    if job.get("switched"):
        return job_switched(job)
    if job.get("after_refusal"):
        return job_after_refusal(job)
    btype, (normalize, validate), forms = job["btype"], tuple(job["cfg"]), job["forms"]
    alll = lists_for(btype, BASES, job["tokset"], job["dist"], job["part"])
    lists = alll[job["shard"]::job["nshards"]]
    viols, outcomes = {}, {}
    n = nt = 0
    for lst in lists:
        for form in forms:
            if form == "str":
                try:
                    [x.decode("ascii") for t in lst for x in t]
                except UnicodeDecodeError:
                    continue
            n += 1
            if judge(btype, normalize, validate, lst, form, viols, outcomes):
                nt += 1
    return {"evaluations": n, "outcomes": {("%s:" % btype) + k: v for k, v in outcomes.items()}, "nontrivial": nt,
            "violations": list(viols.values()),
            "samples": [{"btype": btype, "normalize": normalize, "validate": validate,
                         "list": [[a.decode("latin-1"), b.decode("latin-1")] for a, b in lists[len(lists) // 2]]}] if lists else []}


def job_after_refusal(job):
    """History layer: a call that is refused for its header list, then a second call on the same stream.  The second
    call must be judged exactly as on a fresh stream: the refused one has sent nothing and changed nothing."""
    btype, (normalize, validate) = job["btype"], tuple(job["cfg"])
    viols, outcomes = {}, {}
    n = nt = 0
    base = tuple(BASES[btype])
    seconds = [(base, False), (tuple(BASES["trailers"]), True), (tuple(BASES["trailers"]), False)]
    if btype in ("response", "request"):
        seconds.append((base, True))
    for first in lists_for(btype, BASES, "full", 1, "d1"):
        eff = btype
        if btype in ("response", "info"):
            eff = "info" if HS.is_informational(list(first)) else "response"
        if HS.expected_outbound(normalize, validate, eff, list(first))[0] != "refused":
            continue
        for second, es in seconds:
            client, blob = start_state(btype, normalize, validate)
            conn = pickle.loads(blob)
            o = do_call(conn, btype, as_form(first, "bytes"))
            if o.kind != "raise":
                continue            # not refused after all: reported by the plain layer
            n += 1
            tag = {"case": {"fam": "after-refusal", "first": [[a.hex(), b.hex()] for a, b in first], "es": es}}
            if judge(btype, normalize, validate, second, "bytes", viols, outcomes, conn=conn, es=es, tag=tag):
                nt += 1
    return {"evaluations": n, "outcomes": {("%s:after-refusal:" % btype) + k: v for k, v in outcomes.items()}, "nontrivial": nt,
            "violations": list(viols.values()), "samples": []}


def switched_conn(client, normalize, validate):
    """A connection built - and whose stream 1 has sent its first header block - under the OPPOSITE switches; the application
    has set them to (normalize, validate) since. A later block on that stream is judged by the switches in force now."""
    cfg = (("normalize_outbound_headers", not normalize), ("validate_outbound_headers", not validate))
    conn = pickle.loads(corpus.state_blob(client, "open", cfg))
    if not client:
        o = H.call(conn, "send_headers", 1, H.ni(H.RESP))
        assert o.kind == "ok", o.brief()
    conn.config.normalize_outbound_headers = normalize
    conn.config.validate_outbound_headers = validate
    return conn


def job_switched(job):
    client, (normalize, validate) = job["client"], tuple(job["cfg"])
    viols, outcomes = {}, {}
    n = nt = 0
    for lst in lists_for("trailers", BASES, "full", 1, "d1"):
        n += 1
        tag = {"case": {"fam": "switched", "client": client}}
        if judge("trailers", normalize, validate, lst, "bytes", viols, outcomes, conn=switched_conn(client, normalize, validate), es=True, tag=tag):
            nt += 1
    for v in viols.values():
        v["sig"].pop("after_refused_call", None)
        v["sig"]["config_switched_midstream"] = True
    return {"evaluations": n, "outcomes": {"trailers:switched:" + k: v for k, v in outcomes.items()}, "nontrivial": nt,
            "violations": list(viols.values()), "samples": []}


def replay(rec):
    c = rec["case"]
    if c.get("fam") == "switched":
        viols, outcomes = {}, {}
        lst = tuple((bytes.fromhex(a), bytes.fromhex(b)) for a, b in c["list"])
        judge("trailers", c["normalize"], c["validate"], lst, "bytes", viols, outcomes,
              conn=switched_conn(c["client"], c["normalize"], c["validate"]), es=True, tag={"case": {}})
        for v in viols.values():
            v["sig"].pop("after_refused_call", None)
            v["sig"]["config_switched_midstream"] = True
        return list(viols.values())
    if c.get("fam") == "after-refusal":
        viols, outcomes = {}, {}
        client, blob = start_state(c["btype"], c["normalize"], c["validate"])
        conn = pickle.loads(blob)
        first = tuple((bytes.fromhex(a), bytes.fromhex(b)) for a, b in c["first"])
        do_call(conn, c["btype"], as_form(first, "bytes"))
        lst = tuple((bytes.fromhex(a), bytes.fromhex(b)) for a, b in c["list"])
        judge(c["btype"], c["normalize"], c["validate"], lst, "bytes", viols, outcomes, conn=conn, es=c["es"], tag={"case": {}})
        return list(viols.values())
    viols, outcomes = {}, {}
    lst = tuple((bytes.fromhex(a), bytes.fromhex(b)) for a, b in c["list"])
    judge(c["btype"], c["normalize"], c["validate"], lst, c["form"], viols, outcomes)
    return list(viols.values())


def make_spec(key):
    raise NotImplementedError


def _hexlists(ls):
    return [[[n.hex(), v.hex()] for n, v in l] for l in ls]


def run(ctx):
    quick = ctx.tier == "quick"
    jobs = []
    total = 0
    for btype, base in BASES.items():
        for cfg in CFGS:
            tokset = "full" if (cfg == (True, True) or not quick) else "small"
            nrest = len(lists_for(btype, BASES, tokset, 2, "rest"))
            nd1 = len(lists_for(btype, BASES, "full", 1, "d1"))
            total += nrest + nd1
            ns = max(1, nrest // 1500)
            for i in range(ns):
                jobs.append({"btype": btype, "cfg": list(cfg), "tokset": tokset, "dist": 2, "part": "rest", "shard": i,
                             "nshards": ns, "forms": ["bytes"]})
            jobs.append({"btype": btype, "cfg": list(cfg), "tokset": "full", "dist": 1, "part": "d1", "shard": 0, "nshards": 1,
                         "forms": ["bytes", "str", "HeaderTuple", "NeverIndexed"]})
        if not quick:
            n3 = len(lists_for(btype, BASES, "small", 3, "shell3"))
            total += n3
            ns = max(1, n3 // 3000)
            for i in range(ns):
                jobs.append({"btype": btype, "cfg": [True, True], "tokset": "small", "dist": 3, "part": "shell3", "shard": i,
                             "nshards": ns, "forms": ["bytes"]})
    for btype in BASES:
        for cfg in ((True, True), (False, True)):
            jobs.append({"after_refusal": True, "btype": btype, "cfg": list(cfg)})
    # the normalise / validate switches changed by the application after a stream has sent its first header block
    for client in (True, False):
        for cfg in CFGS:
            jobs.append({"switched": True, "client": client, "cfg": list(cfg)})
    _BALLS.clear()
    ctx.fanout("c14-%s" % ctx.tier, jobs, "job", domain="%d distinct (block type, configuration, list) cases" % total)
    ctx.fanouts[-1]["states"] = 3 * len(CFGS)
