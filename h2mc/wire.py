"""Independent HTTP/2 frame codec (RFC 7540 sections 4 and 6, RFC 7838).

Deliberately does NOT import hyperframe: the library under test uses
hyperframe both to build and to parse frames, so a framing mistake there
could cancel out.  This module is used (a) to build every peer frame fed to
the connection under test - including malformed ones - and (b) to parse
everything ``data_to_send()`` returns.
"""
import struct

DATA, HEADERS, PRIORITY, RST_STREAM, SETTINGS, PUSH_PROMISE, PING, GOAWAY, \
    WINDOW_UPDATE, CONTINUATION, ALTSVC = range(11)

TYPE_NAMES = {
    DATA: "DATA", HEADERS: "HEADERS", PRIORITY: "PRIORITY",
    RST_STREAM: "RST_STREAM", SETTINGS: "SETTINGS",
    PUSH_PROMISE: "PUSH_PROMISE", PING: "PING", GOAWAY: "GOAWAY",
    WINDOW_UPDATE: "WINDOW_UPDATE", CONTINUATION: "CONTINUATION",
    ALTSVC: "ALTSVC",
}

F_END_STREAM = 0x1
F_ACK = 0x1
F_END_HEADERS = 0x4
F_PADDED = 0x8
F_PRIORITY = 0x20

# flags defined per type (everything else must be ignored by a receiver and
# must not be set by a sender)
DEFINED_FLAGS = {
    DATA: F_END_STREAM | F_PADDED,
    HEADERS: F_END_STREAM | F_END_HEADERS | F_PADDED | F_PRIORITY,
    PRIORITY: 0, RST_STREAM: 0, SETTINGS: F_ACK,
    PUSH_PROMISE: F_END_HEADERS | F_PADDED,
    PING: F_ACK, GOAWAY: 0, WINDOW_UPDATE: 0,
    CONTINUATION: F_END_HEADERS, ALTSVC: 0,
}

PREFACE = b"PRI * HTTP/2.0\r\n\r\nSM\r\n\r\n"

# error codes
NO_ERROR, PROTOCOL_ERROR, INTERNAL_ERROR, FLOW_CONTROL_ERROR, \
    SETTINGS_TIMEOUT, STREAM_CLOSED, FRAME_SIZE_ERROR, REFUSED_STREAM, CANCEL, \
    COMPRESSION_ERROR, CONNECT_ERROR, ENHANCE_YOUR_CALM, INADEQUATE_SECURITY, \
    HTTP_1_1_REQUIRED = range(14)

ERR_NAMES = ["NO_ERROR", "PROTOCOL_ERROR", "INTERNAL_ERROR",
             "FLOW_CONTROL_ERROR", "SETTINGS_TIMEOUT", "STREAM_CLOSED",
             "FRAME_SIZE_ERROR", "REFUSED_STREAM", "CANCEL",
             "COMPRESSION_ERROR", "CONNECT_ERROR", "ENHANCE_YOUR_CALM",
             "INADEQUATE_SECURITY", "HTTP_1_1_REQUIRED"]


def err_name(code):
    if isinstance(code, int) and 0 <= code < len(ERR_NAMES):
        return ERR_NAMES[code]
    return "0x%x" % code

# settings ids
S_HEADER_TABLE_SIZE = 1
S_ENABLE_PUSH = 2
S_MAX_CONCURRENT_STREAMS = 3
S_INITIAL_WINDOW_SIZE = 4
S_MAX_FRAME_SIZE = 5
S_MAX_HEADER_LIST_SIZE = 6
S_ENABLE_CONNECT_PROTOCOL = 8


class WireError(Exception):
    """The byte string is not a sequence of well-formed HTTP/2 frames."""


class Frame:
    """A parsed (or to-be-serialised) frame.

    ``type``/``flags``/``sid``/``payload`` are the raw header fields and raw
    payload; ``f`` is the dict of typed fields produced by :func:`decode`.
    """
    __slots__ = ("type", "flags", "sid", "payload", "rbit", "f")

    def __init__(self, type, flags, sid, payload=b"", rbit=0):
        self.type = type
        self.flags = flags
        self.sid = sid
        self.payload = bytes(payload)
        self.rbit = rbit
        self.f = None

    @property
    def name(self):
        return TYPE_NAMES.get(self.type, "T%d" % self.type)

    def serialize(self, length=None):
        ln = len(self.payload) if length is None else length
        return (struct.pack(">I", ln)[1:] +
                bytes([self.type & 0xff, self.flags & 0xff]) +
                struct.pack(">I", (self.sid & 0x7fffffff) |
                            (0x80000000 if self.rbit else 0)) +
                self.payload)

    def has(self, flag):
        return bool(self.flags & flag)

    def brief(self):
        d = dict(self.f or {})
        d.pop("block", None)
        if "data" in d:
            d["data"] = len(d["data"])
        parts = ["%s=%s" % (k, d[k]) for k in sorted(d)]
        return "%s(sid=%d flags=0x%x %s)" % (
            self.name, self.sid, self.flags, " ".join(parts))

    def __repr__(self):
        return self.brief()

    def __reduce__(self):
        return (_rebuild, (self.type, self.flags, self.sid, self.payload,
                           self.rbit, self.f))


def _rebuild(t, fl, sid, payload, rbit, f):
    fr = Frame(t, fl, sid, payload, rbit)
    fr.f = f
    return fr


# ---------------------------------------------------------------- builders

def _pad(body, pad):
    if pad is None:
        return body, 0
    return bytes([pad]) + body + b"\0" * pad, F_PADDED


def _prio(depends_on, weight, exclusive):
    return struct.pack(">IB", (depends_on & 0x7fffffff) |
                       (0x80000000 if exclusive else 0), (weight - 1) & 0xff)


def data(sid, payload=b"", es=False, pad=None):
    body, fl = _pad(payload, pad)
    return Frame(DATA, fl | (F_END_STREAM if es else 0), sid, body)


def headers(sid, block, es=False, eh=True, prio=None, pad=None):
    """prio = (depends_on, weight 1..256, exclusive) or None."""
    body = block
    fl = 0
    if prio is not None:
        body = _prio(*prio) + body
        fl |= F_PRIORITY
    body, pf = _pad(body, pad)
    fl |= pf
    if es:
        fl |= F_END_STREAM
    if eh:
        fl |= F_END_HEADERS
    return Frame(HEADERS, fl, sid, body)


def continuation(sid, block, eh=True):
    return Frame(CONTINUATION, F_END_HEADERS if eh else 0, sid, block)


def priority(sid, depends_on=0, weight=16, exclusive=False):
    return Frame(PRIORITY, 0, sid, _prio(depends_on, weight, exclusive))


def rst_stream(sid, code=0):
    return Frame(RST_STREAM, 0, sid, struct.pack(">I", code))


def settings(pairs=(), ack=False):
    body = b"".join(struct.pack(">HI", k, v) for k, v in pairs)
    return Frame(SETTINGS, F_ACK if ack else 0, 0, body)


def push_promise(sid, promised, block, eh=True, pad=None):
    body = struct.pack(">I", promised & 0x7fffffff) + block
    body, fl = _pad(body, pad)
    return Frame(PUSH_PROMISE, fl | (F_END_HEADERS if eh else 0), sid, body)


def ping(opaque=b"\0" * 8, ack=False):
    return Frame(PING, F_ACK if ack else 0, 0, opaque)


def goaway(last_sid=0, code=0, debug=b""):
    return Frame(GOAWAY, 0, 0,
                 struct.pack(">II", last_sid & 0x7fffffff, code) + debug)


def window_update(sid, increment):
    return Frame(WINDOW_UPDATE, 0, sid, struct.pack(">I", increment))


def altsvc(sid, origin, field):
    return Frame(ALTSVC, 0, sid, struct.pack(">H", len(origin)) + origin + field)


def raw(type, flags, sid, payload=b"", rbit=0):
    return Frame(type, flags, sid, payload, rbit)


# ---------------------------------------------------------------- parser

def split_frames(buf):
    """Split a byte string into raw frames.  Raises WireError on trailing
    garbage / truncated frames.  Returns list of Frame (undecoded)."""
    out = []
    i = 0
    n = len(buf)
    while i < n:
        if n - i < 9:
            raise WireError("truncated frame header at offset %d" % i)
        ln = (buf[i] << 16) | (buf[i + 1] << 8) | buf[i + 2]
        t = buf[i + 3]
        fl = buf[i + 4]
        sidw = struct.unpack(">I", buf[i + 5:i + 9])[0]
        if n - i - 9 < ln:
            raise WireError("truncated frame body at offset %d" % i)
        out.append(Frame(t, fl, sidw & 0x7fffffff, buf[i + 9:i + 9 + ln],
                         sidw >> 31))
        i += 9 + ln
    return out


def _unpad(fr, body):
    if fr.flags & F_PADDED:
        if not body:
            raise WireError("%s: PADDED without pad length" % fr.name)
        pl = body[0]
        body = body[1:]
        if pl > len(body):
            raise WireError("%s: padding longer than payload" % fr.name)
        padding = body[len(body) - pl:] if pl else b""
        if padding.strip(b"\0"):
            raise WireError("%s: non-zero padding" % fr.name)
        return body[:len(body) - pl], pl
    return body, None


def decode(fr, strict=True):
    """Fill ``fr.f`` with typed fields.  With ``strict`` every rule a SENDER
    must respect is enforced (stream id zero/non-zero, fixed lengths, reserved
    bit clear, only defined flags set) and WireError is raised otherwise."""
    t, p = fr.type, fr.payload
    f = {}
    if strict:
        if fr.rbit:
            raise WireError("%s: reserved bit set" % fr.name)
        if t in DEFINED_FLAGS and fr.flags & ~DEFINED_FLAGS[t]:
            raise WireError("%s: undefined flags 0x%x" % (fr.name, fr.flags))
        if t in (DATA, HEADERS, PRIORITY, RST_STREAM, PUSH_PROMISE,
                 CONTINUATION) and fr.sid == 0:
            raise WireError("%s on stream 0" % fr.name)
        if t in (SETTINGS, PING, GOAWAY) and fr.sid != 0:
            raise WireError("%s on stream %d" % (fr.name, fr.sid))
    if t == DATA:
        body, pl = _unpad(fr, p)
        f["data"] = body
        f["pad"] = pl
        f["es"] = fr.has(F_END_STREAM)
        f["fcl"] = len(p)
    elif t == HEADERS:
        body, pl = _unpad(fr, p)
        f["pad"] = pl
        if fr.flags & F_PRIORITY:
            if len(body) < 5:
                raise WireError("HEADERS: short priority block")
            w, wt = struct.unpack(">IB", body[:5])
            f["prio"] = (w & 0x7fffffff, wt + 1, bool(w >> 31))
            body = body[5:]
        else:
            f["prio"] = None
        f["block"] = body
        f["es"] = fr.has(F_END_STREAM)
        f["eh"] = fr.has(F_END_HEADERS)
    elif t == PRIORITY:
        if len(p) != 5:
            raise WireError("PRIORITY: length %d" % len(p))
        w, wt = struct.unpack(">IB", p)
        f["prio"] = (w & 0x7fffffff, wt + 1, bool(w >> 31))
    elif t == RST_STREAM:
        if len(p) != 4:
            raise WireError("RST_STREAM: length %d" % len(p))
        f["code"] = struct.unpack(">I", p)[0]
    elif t == SETTINGS:
        f["ack"] = fr.has(F_ACK)
        if f["ack"] and p:
            raise WireError("SETTINGS ACK with payload")
        if len(p) % 6:
            raise WireError("SETTINGS: length %d" % len(p))
        f["settings"] = [struct.unpack(">HI", p[i:i + 6])
                         for i in range(0, len(p), 6)]
    elif t == PUSH_PROMISE:
        body, pl = _unpad(fr, p)
        f["pad"] = pl
        if len(body) < 4:
            raise WireError("PUSH_PROMISE: short")
        w = struct.unpack(">I", body[:4])[0]
        if strict and w >> 31:
            raise WireError("PUSH_PROMISE: reserved bit set")
        f["promised"] = w & 0x7fffffff
        f["block"] = body[4:]
        f["eh"] = fr.has(F_END_HEADERS)
    elif t == PING:
        if len(p) != 8:
            raise WireError("PING: length %d" % len(p))
        f["ack"] = fr.has(F_ACK)
        f["opaque"] = p
    elif t == GOAWAY:
        if len(p) < 8:
            raise WireError("GOAWAY: length %d" % len(p))
        w, c = struct.unpack(">II", p[:8])
        if strict and w >> 31:
            raise WireError("GOAWAY: reserved bit set")
        f["last"] = w & 0x7fffffff
        f["code"] = c
        f["debug"] = p[8:]
    elif t == WINDOW_UPDATE:
        if len(p) != 4:
            raise WireError("WINDOW_UPDATE: length %d" % len(p))
        w = struct.unpack(">I", p)[0]
        if strict and w >> 31:
            raise WireError("WINDOW_UPDATE: reserved bit set")
        f["inc"] = w & 0x7fffffff
        if strict and f["inc"] == 0:
            raise WireError("WINDOW_UPDATE: zero increment")
    elif t == CONTINUATION:
        f["block"] = p
        f["eh"] = fr.has(F_END_HEADERS)
    elif t == ALTSVC:
        if len(p) < 2:
            raise WireError("ALTSVC: short")
        ol = struct.unpack(">H", p[:2])[0]
        if 2 + ol > len(p):
            raise WireError("ALTSVC: origin length")
        f["origin"] = p[2:2 + ol]
        f["field"] = p[2 + ol:]
    else:
        f["raw"] = p
    fr.f = f
    return fr


def parse(buf, strict=True):
    """bytes -> list of decoded frames; WireError if not well-formed."""
    return [decode(fr, strict) for fr in split_frames(bytes(buf))]


def parse_output(buf, expect_preface=False):
    """Parse bytes emitted by an endpoint; optionally strip the client
    preface first."""
    buf = bytes(buf)
    if expect_preface:
        if not buf.startswith(PREFACE):
            raise WireError("client preface missing")
        buf = buf[len(PREFACE):]
    return parse(buf)


def header_blocks(frames):
    """Group a frame sequence into (first_frame, full_block, [frames]) for
    every header block; checks contiguity (RFC 7540 4.3 / 6.10).  Yields
    ('frame', fr) for other frames and ('block', first, block, frs)."""
    out = []
    cur = None
    for fr in frames:
        if cur is not None:
            if fr.type != CONTINUATION or fr.sid != cur[0].sid:
                raise WireError("header block on stream %d interrupted by %s"
                                % (cur[0].sid, fr.brief()))
            cur[1].append(fr.f["block"])
            cur[2].append(fr)
            if fr.f["eh"]:
                out.append(("block", cur[0], b"".join(cur[1]), cur[2]))
                cur = None
            continue
        if fr.type in (HEADERS, PUSH_PROMISE):
            if fr.f["eh"]:
                out.append(("block", fr, fr.f["block"], [fr]))
            else:
                cur = (fr, [fr.f["block"]], [fr])
        elif fr.type == CONTINUATION:
            raise WireError("naked CONTINUATION on stream %d" % fr.sid)
        else:
            out.append(("frame", fr))
    if cur is not None:
        raise WireError("unterminated header block on stream %d" % cur[0].sid)
    return out


def ser(frames):
    return b"".join(f.serialize() for f in frames)
