"""Shared stream-lifecycle transition system: one real connection, a focus
stream, an auxiliary stream of the same initiator and a promised stream, with
every local action and every received frame kind, in product with the
RFC 7540 5.1 model (models/streams).  Checks C06, C07, C08, C20, C22, C24 plug
their oracle into it.
"""
from . import harness as H
from . import wire
from .canon import fingerprint
from .explorer import Step
from .models import streams as SM

sb = H.stateless_block

BLOCKS = {
    "request": H.REQ_POST,
    "response": H.RESP,
    "info": H.INFO,
    "trailers": H.TRAILERS,
}


class LState:
    def __init__(self, client, upgraded=False, **cfg):
        self.h = H.Solo(client, handshake=not upgraded, **cfg)
        self.dead = False
        self.extra = {}
        if upgraded:
            c = self.h.conn
            if client:
                c.initiate_upgrade_connection()
                c.receive_data(wire.settings([]).serialize())
            else:
                hdr = H.new_conn(True).initiate_upgrade_connection()
                c.initiate_upgrade_connection(hdr)
                c.receive_data(wire.PREFACE + wire.settings([]).serialize())
                self.h.need_preface = False
            c.data_to_send()
            self.h.m.upgrade()


def local_menu(client, sids, promised):
    """labels of local actions"""
    A = []
    f, aux = sids
    for sid in sids:
        if client:
            A += ["l:hdr:%d:request" % sid, "l:hdr:%d:request:es" % sid]
        else:
            A += ["l:hdr:%d:response" % sid, "l:hdr:%d:response:es" % sid]
    if not client:
        A += ["l:hdr:%d:info" % f, "l:hdr:%d:info:es" % f]
    A += ["l:hdr:%d:trailers:es" % f, "l:hdr:%d:trailers" % f]
    A += ["l:data:%d" % f, "l:data:%d:es" % f, "l:end:%d" % f, "l:rst:%d" % f, "l:wu:%d" % f]
    A += ["l:data:%d:es" % aux, "l:rst:%d" % aux]
    if not client:
        A += ["l:push:%d:%d" % (f, promised), "l:hdr:%d:response" % promised, "l:hdr:%d:response:es" % promised,
              "l:data:%d:es" % promised, "l:rst:%d" % promised, "l:wu:%d" % promised]
    else:
        A += ["l:rst:%d" % promised, "l:wu:%d" % promised, "l:data:%d" % promised]
    return A


def peer_menu(client, sids, promised):
    A = []
    f, aux = sids
    if client:
        A += ["rx:hdr:%d:response" % f, "rx:hdr:%d:response:es" % f, "rx:hdr:%d:info" % f, "rx:hdr:%d:info:es" % f,
              "rx:hdr:%d:trailers:es" % f, "rx:hdr:%d:trailers" % f,
              "rx:hdr:%d:response:es" % aux,
              "rx:push:%d:%d" % (f, promised), "rx:hdr:%d:response" % promised, "rx:hdr:%d:response:es" % promised,
              "rx:data:%d" % promised, "rx:data:%d:es" % promised, "rx:rst:%d" % promised, "rx:wu:%d" % promised]
    else:
        A += ["rx:hdr:%d:request" % f, "rx:hdr:%d:request:es" % f, "rx:hdr:%d:trailers:es" % f, "rx:hdr:%d:trailers" % f,
              "rx:hdr:%d:request" % aux, "rx:hdr:%d:request:es" % aux,
              "rx:push:%d:%d" % (f, promised),
              "rx:hdr:%d:request" % promised, "rx:data:%d" % promised, "rx:rst:%d" % promised, "rx:wu:%d" % promised]
    A += ["rx:data:%d" % f, "rx:data:%d:es" % f, "rx:rst:%d" % f, "rx:wu:%d" % f, "rx:cont:%d" % f,
          "rx:data:%d:es" % aux, "rx:rst:%d" % aux]
    return A


class Spec:
    """Subclasses set self.oracle(st, lab, info, o, bad) and may override menus."""
    name = "lifecycle"
    oracle_name = "none"
    go_on_after_refusal = False

    def __init__(self, client, depth, upgraded=False, sids=(1, 3), promised=2):
        self.client = client
        self.max_depth = depth
        self.upgraded = upgraded
        self.sids = sids
        self.promised = promised
        self.cfg = {}            # H2Configuration options of the connection under test (subclasses may set them)
        self.menu = local_menu(client, sids, promised) + peer_menu(client, sids, promised) + ["cleanup"]

    def initial(self):
        st = LState(self.client, self.upgraded, **self.cfg)
        self.init_extra(st)
        return [("upgraded" if self.upgraded else "handshaken", st)]

    def init_extra(self, st):
        pass

    def extra_key(self, st):
        return tuple(sorted(st.extra.items()))

    def fingerprint(self, st):
        return fingerprint(st.h.conn, st.h.m.key(), st.dead, st.h.wdec_broken, self.extra_key(st))

    def actions(self, st):
        if st.dead:
            return []
        acts = []
        for lab in self.menu:
            parts = lab.split(":")
            if len(parts) > 3 and parts[1] == "push" and st.h.m.status(int(parts[3])) != "unused_high":
                continue          # re-promising a used id is C09's subject
            acts.append(lab)
        return acts

    # ------------------------------------------------------------------
    def execute(self, st, lab):
        """-> (obs, info) ; info describes the action and the model's view BEFORE it ran."""
        h = st.h
        m = h.m
        parts = lab.split(":")
        es = parts[-1] == "es"
        info = {"dir": parts[0], "kind": parts[1] if len(parts) > 1 else lab, "es": es}
        if lab == "cleanup":
            h.cleanup()
            info["kind"] = "cleanup"
            return None, info
        sid = int(parts[2])
        info["sid"] = sid
        s = m.get(sid)
        info["status"] = m.status(sid)
        info["state"] = s.state if s is not None else "idle"
        info["closed_by"] = s.closed_by if s is not None else None
        info["sent"] = s.sent if s is not None else "none"
        info["recv"] = s.recv if s is not None else "none"
        if parts[0] == "l":
            k = parts[1]
            if k == "hdr":
                block = parts[3]
                info["block"] = block
                info["verdict"] = SM.send_verdict(m, "headers", sid, es, block)
                o = h.api("send_headers", sid, H.ni(BLOCKS[block]), end_stream=es)
            elif k == "data":
                info["verdict"] = SM.send_verdict(m, "data", sid, es)
                o = h.api("send_data", sid, b"", end_stream=es)
            elif k == "end":
                info["verdict"] = SM.send_verdict(m, "end", sid, True)
                o = h.api("end_stream", sid)
            elif k == "rst":
                info["verdict"] = SM.send_verdict(m, "rst", sid)
                o = h.api("reset_stream", sid, 8)
            elif k == "wu":
                info["verdict"] = SM.send_verdict(m, "wu", sid)
                o = h.api("increment_flow_control_window", 1, stream_id=sid)
            elif k == "push":
                promised = int(parts[3])
                info["promised"] = promised
                info["promised_status"] = m.status(promised)
                o = h.api("push_stream", sid, promised, H.ni(H.REQ))
            else:
                raise ValueError(lab)
            return o, info
        k = parts[1]
        if k == "hdr":
            block = parts[3]
            info["block"] = block
            info["verdict"] = SM.recv_verdict(m, "headers", sid, es, block)
            o = h.rx([wire.headers(sid, sb(BLOCKS[block]), es=es)], ("headers", sid, es, block == "info"))
        elif k == "data":
            info["verdict"] = SM.recv_verdict(m, "data", sid, es)
            o = h.rx([wire.data(sid, b"", es=es)], ("data", sid, es))
        elif k == "rst":
            info["verdict"] = SM.recv_verdict(m, "rst", sid)
            o = h.rx([wire.rst_stream(sid, 8)], ("rst", sid))
        elif k == "wu":
            info["verdict"] = SM.recv_verdict(m, "wu", sid)
            o = h.rx([wire.window_update(sid, 1)])
        elif k == "cont":
            info["verdict"] = SM.recv_verdict(m, "continuation", sid)
            o = h.rx([wire.continuation(sid, sb(H.TRAILERS))])
        elif k == "push":
            promised = int(parts[3])
            info["promised"] = promised
            info["promised_status"] = m.status(promised)
            info["verdict"] = SM.recv_verdict(m, "push", sid, promised=promised)
            o = h.rx([wire.push_promise(sid, promised, sb(H.REQ))], ("push", sid, promised))
        else:
            raise ValueError(lab)
        return o, info

    def apply(self, st, lab):
        viols = []

        def bad(kind, msg, **sig):
            s = {"kind": kind, "role": "client" if self.client else "server"}
            s.update(sig)
            viols.append({"kind": kind, "sig": s, "msg": msg})

        o, info = self.execute(st, lab)
        if o is None:
            return Step("cleanup", viols)
        out = self.judge(st, lab, info, o, bad)
        if o.kind == "raise" and info["dir"] == "rx":
            st.dead = True
            return Step(out, viols, prune=True)
        if o.kind == "raise" and info["dir"] == "l":
            if self.go_on_after_refusal and not viols and not o.via_fsm:
                # refused for its arguments or by a rule checked before any state machine moved (trailers without
                # END_STREAM, a header list that fails validation, a window that is too small): nothing may have
                # changed, the model has not moved either, the path goes on
                return Step(out, viols)
            # an input the stream or connection state machine refuses marks that machine CLOSED without a frame being
            # sent (C01's known finding): what happens afterwards is C01's business, this path ends here
            st.dead = True
            return Step(out, viols, prune=True)
        if viols:
            st.dead = True
        return Step(out, viols)

    def judge(self, st, lab, info, o, bad):
        return "ok"
