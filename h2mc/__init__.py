"""h2mc - explicit-state model checking of hyper-h2 (see /verif/DESIGN.md)."""
