"""Canonical form + fingerprint of live implementation / model state.

Generic and deliberately over-fine: every attribute of every reachable object
is part of the key (except the logger, the bound-method dispatch table and
immutable static tables), dict keys are sorted, so two states with the same
fingerprint have the same futures ("nothing was dropped").  Over-fineness only
costs states, never soundness.
"""
import collections
import enum
import hashlib

_SKIP_ATTRS = frozenset([
    "logger", "_frame_dispatch_table", "huffman_coder",
])

_ATOM = (int, str, bytes, float, bool, type(None))


def _key(x):
    return repr(x)


def canon(o, _depth=0):
    if isinstance(o, enum.Enum):
        return ("E", type(o).__name__, o.name)
    if isinstance(o, _ATOM):
        return o
    if isinstance(o, (bytearray, memoryview)):
        return bytes(o)
    if _depth > 40:
        raise RuntimeError("canon: structure too deep")
    d = _depth + 1
    if isinstance(o, tuple) and hasattr(o, "_fields"):
        return (type(o).__name__,) + tuple(canon(x, d) for x in o)
    if isinstance(o, collections.OrderedDict) and type(o).__name__ == "SizeLimitDict":
        # order matters (eviction order)
        return ("SLD", getattr(o, "_size_limit", None),
                tuple((canon(k, d), canon(v, d)) for k, v in o.items()))
    if isinstance(o, dict):
        items = [(canon(k, d), canon(v, d)) for k, v in o.items()]
        items.sort(key=_key)
        return ("D",) + tuple(items)
    if isinstance(o, (list, collections.deque)):
        return ("L",) + tuple(canon(x, d) for x in o)
    if isinstance(o, tuple):
        return ("T", type(o).__name__) + tuple(canon(x, d) for x in o)
    if isinstance(o, (set, frozenset)):
        return ("S",) + tuple(sorted((canon(x, d) for x in o), key=_key))
    if hasattr(o, "__dict__") or hasattr(o, "__slots__"):
        items = []
        dd = getattr(o, "__dict__", None)
        if dd is not None:
            for k in sorted(dd):
                if k in _SKIP_ATTRS:
                    continue
                items.append((k, canon(dd[k], d)))
        for cls in type(o).__mro__:
            for k in getattr(cls, "__slots__", ()):
                if k in _SKIP_ATTRS or k == "__dict__":
                    continue
                if hasattr(o, k):
                    items.append((k, canon(getattr(o, k), d)))
        return ("O", type(o).__name__) + tuple(items)
    if callable(o):
        return ("C", getattr(o, "__qualname__", repr(o)))
    raise TypeError("canon: cannot canonicalise %r" % type(o))


def fingerprint(*objs):
    h = hashlib.blake2b(digest_size=16)
    h.update(repr(tuple(canon(o) for o in objs)).encode("utf-8", "backslashreplace"))
    return h.digest()
