"""Primitives for driving real H2Connection objects and observing them."""
import traceback

from . import env  # noqa: F401  (binds h2 to the tree under test)
from . import wire

import h2.config
import h2.connection
import h2.events
import h2.exceptions
import h2.settings
import hpack
from hpack import HeaderTuple, NeverIndexedHeaderTuple
import copyreg

# hpack's header tuples take their two fields as separate constructor arguments, which the default pickling of a tuple subclass
# does not know: a pickled copy comes back as ((name, value),). The explorer copies states by pickling them, so a library
# that keeps such tuples inside a connection must get them back intact.
copyreg.pickle(HeaderTuple, lambda t: (HeaderTuple, tuple(t)))
copyreg.pickle(NeverIndexedHeaderTuple, lambda t: (NeverIndexedHeaderTuple, tuple(t)))


# (a connection that keeps a memoryview of some buffer can be copied too: the copy views a private copy of the bytes)
copyreg.pickle(memoryview, lambda m: (memoryview, (bytes(m),)))


def _rebuild_size_limit_dict(cls, limit, items):
    d = cls(size_limit=limit)
    for k, v in items:
        d[k] = v
    return d


# the closed-stream memory is a dict subclass with a constructor argument: pickled explicitly, so that copying a state
# does not depend on which dict type it is derived from
import h2.utilities  # noqa: E402
copyreg.pickle(h2.utilities.SizeLimitDict,
               lambda d: (_rebuild_size_limit_dict, (type(d), getattr(d, "_size_limit", None), list(d.items()))))

H2Error = h2.exceptions.H2Error
ProtocolError = h2.exceptions.ProtocolError


def new_conn(client, **cfg):
    c = h2.config.H2Configuration(client_side=client, **cfg)
    return h2.connection.H2Connection(config=c)


def innermost_h2(exc):
    """'module.function' of the innermost frame that lies in the h2 package."""
    tb = traceback.extract_tb(exc.__traceback__)
    best = None
    for fs in tb:
        fn = fs.filename.replace("\\", "/")
        if "/h2/" in fn and "/h2mc/" not in fn:
            best = "%s.%s" % (fn.rsplit("/", 1)[1][:-3], fs.name)
    return best


class Obs:
    """Observation of one step on a connection."""
    __slots__ = ("kind", "exc", "exc_name", "code", "is_h2", "is_proto",
                 "where", "frames", "raw", "events", "ret", "wire_error", "msg",
                 "blocks", "via_fsm")

    def __init__(self):
        self.kind = "ok"
        self.exc = None
        self.exc_name = None
        self.code = None
        self.is_h2 = False
        self.is_proto = False
        self.where = None
        self.frames = []
        self.raw = b""
        self.events = []
        self.ret = None
        self.wire_error = None
        self.msg = None
        self.blocks = []
        self.via_fsm = False       # the exception was raised inside a state machine's process_input

    def frame_names(self):
        return [f.name for f in self.frames]

    def brief(self):
        s = self.kind
        if self.kind == "raise":
            s += ":" + self.exc_name
            if self.code is not None:
                s += "(%s)" % wire.err_name(int(self.code))
        if self.frames:
            s += " out=[" + ", ".join(f.brief() for f in self.frames) + "]"
        if self.events:
            s += " ev=[" + ", ".join(type(e).__name__ for e in self.events) + "]"
        if self.wire_error:
            s += " WIRE-ERROR " + self.wire_error
        return s


def _fill_exc(o, e):
    o.kind = "raise"
    o.exc = e
    o.exc_name = type(e).__name__
    o.is_h2 = isinstance(e, H2Error)
    o.is_proto = isinstance(e, ProtocolError)
    o.code = getattr(e, "error_code", None) if o.is_proto else None
    o.where = innermost_h2(e)
    o.via_fsm = any(fs.name == "process_input" for fs in traceback.extract_tb(e.__traceback__))
    try:
        o.msg = str(e)
    except Exception:
        o.msg = "<unprintable>"


def drain(conn, o, strip_preface=False):
    raw = conn.data_to_send()
    o.raw = raw
    buf = raw
    if strip_preface and buf.startswith(wire.PREFACE):
        buf = buf[len(wire.PREFACE):]
    try:
        o.frames = wire.parse(buf)
    except wire.WireError as we:
        o.wire_error = str(we)
        try:
            o.frames = wire.parse(buf, strict=False)
        except wire.WireError:
            o.frames = []
    return o


def call(conn, method, *args, **kw):
    """Invoke a public method; drain and parse the output afterwards."""
    o = Obs()
    try:
        o.ret = getattr(conn, method)(*args, **kw)
    except Exception as e:  # noqa: BLE001 - the exception type IS the observation
        _fill_exc(o, e)
    drain(conn, o, strip_preface=(method in ("initiate_connection",
                                              "initiate_upgrade_connection")))
    return o


def recv(conn, data):
    o = Obs()
    try:
        o.events = conn.receive_data(data)
        o.ret = o.events
    except Exception as e:  # noqa: BLE001
        _fill_exc(o, e)
    drain(conn, o)
    return o


def recv_frames(conn, frames):
    return recv(conn, wire.ser(frames))


# ------------------------------------------------------------ peer HPACK

class Peer:
    """The scripted peer's compressor state (hpack is not code under test)."""

    def __init__(self):
        self.enc = hpack.Encoder()
        self.dec = hpack.Decoder()
        self.dec.max_header_list_size = 2 ** 31  # effectively unlimited

    def encode(self, headers, huffman=False):
        return self.enc.encode(headers, huffman=huffman)

    def decode(self, block):
        """-> list of (name, value, never_indexed)"""
        out = []
        for h in self.dec.decode(block, raw=True):
            out.append((bytes(h[0]), bytes(h[1]), not getattr(h, "indexable", True)))
        return out


def ni(headers):
    """Header list as never-indexed literals: encoding it never touches an
    HPACK dynamic table (keeps state spaces finite where compression state is
    irrelevant to the property)."""
    return [NeverIndexedHeaderTuple(n, v) for n, v in headers]


def stateless_block(headers):
    """Encode with a throw-away encoder, never-indexed: a header block that
    can be decoded at any time without changing the decoder's table."""
    return hpack.Encoder().encode(ni(headers), huffman=False)


REQ = [(b":method", b"GET"), (b":scheme", b"https"), (b":path", b"/"),
       (b":authority", b"example.com")]
REQ_POST = [(b":method", b"POST"), (b":scheme", b"https"), (b":path", b"/"),
            (b":authority", b"example.com")]
RESP = [(b":status", b"200")]
INFO = [(b":status", b"100")]
TRAILERS = [(b"x-trailer", b"1")]

# server handshake helper -------------------------------------------------

def handshake_server(conn, settings_pairs=()):
    """initiate + feed client preface + SETTINGS; drain."""
    conn.initiate_connection()
    conn.receive_data(wire.PREFACE + wire.settings(settings_pairs).serialize())
    conn.data_to_send()


def handshake_client(conn, settings_pairs=()):
    conn.initiate_connection()
    conn.receive_data(wire.settings(settings_pairs).serialize())
    conn.data_to_send()


def event_brief(e):
    d = {}
    for k, v in vars(e).items():
        if isinstance(v, h2.events.Event):
            d[k] = type(v).__name__
        else:
            d[k] = v
    return (type(e).__name__, d)


# ------------------------------------------------------------ solo harness

from .models.streams import ConnM  # noqa: E402


def is_info_block(headers):
    for n, v in headers:
        if n in (b":status", ":status"):
            return (v[:1] in (b"1", "1"))
    return False


class Solo:
    """One real connection + scripted peer + the stream-lifecycle tracker.

    The tracker (``self.m``) is advanced only by what is *observed*: frames
    the library really emitted, and peer frames it accepted without a stream
    or connection error.
    """

    def __init__(self, client, handshake=True, peer_settings=(), **cfg):
        self.client = client
        self.conn = new_conn(client, **cfg)
        self.m = ConnM(client)
        self.wdec = hpack.Decoder()        # follows the library's encoder
        self.wdec.max_header_list_size = 2 ** 31
        self.wdec_broken = False
        self.need_preface = not client
        if handshake:
            if client:
                handshake_client(self.conn, peer_settings)
            else:
                handshake_server(self.conn, peer_settings)
                self.need_preface = False

    # -- local call ------------------------------------------------------
    def api(self, method, *args, **kw):
        o = call(self.conn, method, *args, **kw)
        self.absorb_output(o)
        return o

    def absorb_output(self, o):
        """Advance the tracker from frames seen on the wire; returns the list
        of decoded header blocks [(first_frame, headers)]."""
        blocks = []
        try:
            items = wire.header_blocks(o.frames)
        except wire.WireError as e:
            o.wire_error = o.wire_error or str(e)
            items = [("frame", f) for f in o.frames
                     if f.type not in (wire.HEADERS, wire.PUSH_PROMISE, wire.CONTINUATION)]
        for it in items:
            if it[0] == "block":
                _, first, block, frs = it
                hdrs = None
                if not self.wdec_broken:
                    try:
                        hdrs = [(bytes(h[0]), bytes(h[1]), not getattr(h, "indexable", True))
                                for h in self.wdec.decode(block, raw=True)]
                    except Exception as e:  # noqa: BLE001
                        self.wdec_broken = True
                        o.wire_error = o.wire_error or ("peer cannot decode header block: %r" % (e,))
                blocks.append((first, hdrs))
                if first.type == wire.HEADERS:
                    info = bool(hdrs) and is_info_block([(n, v) for n, v, _ in hdrs])
                    self.m.sent_headers(first.sid, first.f["es"], info)
                else:
                    self.m.sent_push(first.sid, first.f["promised"])
            else:
                f = it[1]
                if f.type == wire.DATA:
                    self.m.sent_data(f.sid, f.f["es"])
                elif f.type == wire.RST_STREAM:
                    self.m.sent_rst(f.sid)
                elif f.type == wire.GOAWAY:
                    self.m.closed = True
        o.blocks = blocks
        return blocks

    # -- peer frame(s) ---------------------------------------------------
    def rx(self, frames, meta=None):
        """Deliver one logical peer input (a frame, or a header block as
        HEADERS+CONTINUATIONs).  ``meta`` describes it for the tracker:
        ('headers', sid, es, info) | ('data', sid, es) | ('rst', sid) |
        ('push', parent, promised) | None."""
        pre = b""
        if self.need_preface:
            pre = wire.PREFACE
            self.need_preface = False
        o = recv(self.conn, pre + wire.ser(frames))
        if o.kind == "raise":
            self.m.closed = True
        rst_sids = set(f.sid for f in o.frames if f.type == wire.RST_STREAM)
        if o.kind == "ok" and meta is not None:
            kind = meta[0]
            if kind == "headers" and meta[1] not in rst_sids:
                self.m.recv_headers(meta[1], meta[2], meta[3])
            elif kind == "data" and meta[1] not in rst_sids:
                self.m.recv_data(meta[1], meta[2])
            elif kind == "rst":
                self.m.recv_rst(meta[1])
            elif kind == "push" and meta[1] not in rst_sids:
                if meta[2] not in rst_sids:
                    self.m.recv_push(meta[1], meta[2])
                elif self.m.status(meta[2]) == "unused_high" and not self.m.is_local_id(meta[2]):
                    # refused: reserved by the PUSH_PROMISE, closed by the RST_STREAM that absorb_output()
                    # is about to see.  (RST_STREAM in answer to re-promising a used id changes nothing.)
                    self.m.recv_push(meta[1], meta[2], refused=True)
            elif kind == "goaway":
                self.m.closed = True
        self.absorb_output(o)
        return o

    def cleanup(self):
        """The public way to make the library forget closed streams."""
        a = self.conn.open_outbound_streams
        b = self.conn.open_inbound_streams
        self.m.cleanup()
        return a, b


# ------------------------------------------------------------ sized header lists

_SIZED_CACHE = {}


def sized_headers(base, target, never_indexed=True):
    """A header list extending ``base`` whose HPACK encoding (fresh encoder,
    library defaults, i.e. Huffman on) is exactly ``target`` bytes long.
    Uses 'X'/'Z' padding characters, whose Huffman codes are 8 bits."""
    key = (tuple(base), target, never_indexed)
    if key in _SIZED_CACHE:
        return _SIZED_CACHE[key]
    wrap = ni if never_indexed else (lambda x: list(x))

    def enc_len(hs):
        return len(hpack.Encoder().encode(wrap(hs)))

    b0 = enc_len(list(base))
    if target < b0 + 8:
        raise ValueError("target %d too small (base %d)" % (target, b0))
    res = None
    guess = target - b0 - 8
    for n in range(max(0, guess - 8), guess + 12):
        hs = list(base) + [(b"x-pad", b"X" * n)]
        ln = enc_len(hs)
        if ln == target:
            res = hs
            break
        if ln > target:
            break
    if res is None:
        for n in range(max(0, guess - 40), guess + 4):
            for m in range(0, 24):
                hs = list(base) + [(b"x-pad", b"X" * n), (b"x-pad", b"Z" * m)]
                if enc_len(hs) == target:
                    res = hs
                    break
            if res:
                break
    if res is None:
        raise ValueError("cannot hit encoded size %d" % target)
    res = wrap(res)
    _SIZED_CACHE[key] = res
    return res


def stream_flow_projection(conn):
    """The stream-and-flow part of a connection's state (read-only look at
    internals, as DESIGN.md section 1 allows for 'a PRIORITY frame changes no
    state'): stream table with each stream's state, closed-stream memory, both
    id watermarks, every window, connection state, buffered input."""
    streams = []
    for sid in sorted(conn.streams):
        s = conn.streams[sid]
        sm = s.state_machine
        streams.append((sid, sm.state.name, str(sm.stream_closed_by), sm.client,
                        sm.headers_sent, sm.trailers_sent, sm.headers_received,
                        sm.trailers_received, s.outbound_flow_control_window,
                        s.inbound_flow_control_window,
                        s._inbound_window_manager.max_window_size,
                        s._inbound_window_manager._bytes_processed))
    return (conn.state_machine.state.name, tuple(streams),
            tuple((k, str(v)) for k, v in conn._closed_streams.items()),
            conn.highest_inbound_stream_id, conn.highest_outbound_stream_id,
            conn.outbound_flow_control_window, conn.inbound_flow_control_window,
            conn._inbound_flow_control_window_manager.max_window_size,
            conn._inbound_flow_control_window_manager._bytes_processed,
            bytes(conn.incoming_buffer.data), len(conn.incoming_buffer._headers_buffer),
            bytes(conn._data_to_send))


def quiescent_projection(conn):
    """What a call that raises must leave alone (read-only look at internals): connection state, both stream-id
    watermarks, every window, the state and message flags of every stream that is not closed, the pending and current
    values of both settings objects, the encoder's dynamic table, unparsed input and uncollected output.  Closed streams
    and the closed-stream memory are left out: a refused send_headers at the concurrency limit legitimately tidies
    them."""
    streams = []
    for sid in sorted(conn.streams):
        s = conn.streams[sid]
        sm = s.state_machine
        if sm.state.name == "CLOSED":
            continue
        streams.append((sid, sm.state.name, sm.client, sm.headers_sent, sm.trailers_sent, sm.headers_received,
                        sm.trailers_received, s.outbound_flow_control_window, s.inbound_flow_control_window,
                        s._inbound_window_manager.max_window_size, s._inbound_window_manager._bytes_processed,
                        s.max_outbound_frame_size, s.max_inbound_frame_size))

    def sett(x):
        return tuple(sorted((int(k), tuple(v)) for k, v in x._settings.items()))
    cstate = conn.state_machine.state.name
    if cstate == "IDLE":
        # a refused first call may already have taken the connection from IDLE to the OPEN state of ITS OWN role: not
        # observable (every input is treated alike in the two states for that role), so the two are one state here
        cstate = "CLIENT_OPEN" if conn.config.client_side else "SERVER_OPEN"
    return (cstate, tuple(streams), conn.highest_inbound_stream_id, conn.highest_outbound_stream_id,
            conn.outbound_flow_control_window, conn.inbound_flow_control_window,
            conn._inbound_flow_control_window_manager.max_window_size,
            conn._inbound_flow_control_window_manager._bytes_processed,
            conn.max_outbound_frame_size, conn.max_inbound_frame_size,
            sett(conn.local_settings), sett(conn.remote_settings),
            tuple(tuple(map(bytes, e)) for e in conn.encoder.header_table.dynamic_entries), conn.encoder.header_table_size,
            bytes(conn.incoming_buffer.data), len(conn.incoming_buffer._headers_buffer), bytes(conn._data_to_send))


PROJECTION_FIELDS = ("connection state", "live streams", "highest inbound id", "highest outbound id", "outbound connection window",
                     "inbound connection window", "inbound window maximum", "inbound bytes processed", "max outbound frame size",
                     "max inbound frame size", "local settings (current + pending)", "remote settings", "encoder table",
                     "encoder table size", "unparsed input", "header-block backlog", "uncollected output")


def projection_diff(a, b):
    return [PROJECTION_FIELDS[i] for i, (x, y) in enumerate(zip(a, b)) if x != y]
