"""Primitives for driving real H2Connection objects and observing them."""
import traceback

from . import env  # noqa: F401  (binds h2 to the tree under test)
from . import wire

import h2.config
import h2.connection
import h2.events
import h2.exceptions
import h2.settings
import hpack
from hpack import HeaderTuple, NeverIndexedHeaderTuple

H2Error = h2.exceptions.H2Error
ProtocolError = h2.exceptions.ProtocolError


def new_conn(client, **cfg):
    c = h2.config.H2Configuration(client_side=client, **cfg)
    return h2.connection.H2Connection(config=c)


def innermost_h2(exc):
    """'module.function' of the innermost frame that lies in the h2 package."""
    tb = traceback.extract_tb(exc.__traceback__)
    best = None
    for fs in tb:
        fn = fs.filename.replace("\\", "/")
        if "/h2/" in fn and "/h2mc/" not in fn:
            best = "%s.%s" % (fn.rsplit("/", 1)[1][:-3], fs.name)
    return best


class Obs:
    """Observation of one step on a connection."""
    __slots__ = ("kind", "exc", "exc_name", "code", "is_h2", "is_proto",
                 "where", "frames", "raw", "events", "ret", "wire_error", "msg")

    def __init__(self):
        self.kind = "ok"
        self.exc = None
        self.exc_name = None
        self.code = None
        self.is_h2 = False
        self.is_proto = False
        self.where = None
        self.frames = []
        self.raw = b""
        self.events = []
        self.ret = None
        self.wire_error = None
        self.msg = None

    def frame_names(self):
        return [f.name for f in self.frames]

    def brief(self):
        s = self.kind
        if self.kind == "raise":
            s += ":" + self.exc_name
            if self.code is not None:
                s += "(%s)" % wire.err_name(int(self.code))
        if self.frames:
            s += " out=[" + ", ".join(f.brief() for f in self.frames) + "]"
        if self.events:
            s += " ev=[" + ", ".join(type(e).__name__ for e in self.events) + "]"
        if self.wire_error:
            s += " WIRE-ERROR " + self.wire_error
        return s


def _fill_exc(o, e):
    o.kind = "raise"
    o.exc = e
    o.exc_name = type(e).__name__
    o.is_h2 = isinstance(e, H2Error)
    o.is_proto = isinstance(e, ProtocolError)
    o.code = getattr(e, "error_code", None) if o.is_proto else None
    o.where = innermost_h2(e)
    try:
        o.msg = str(e)
    except Exception:
        o.msg = "<unprintable>"


def drain(conn, o, strip_preface=False):
    raw = conn.data_to_send()
    o.raw = raw
    buf = raw
    if strip_preface and buf.startswith(wire.PREFACE):
        buf = buf[len(wire.PREFACE):]
    try:
        o.frames = wire.parse(buf)
    except wire.WireError as we:
        o.wire_error = str(we)
        try:
            o.frames = wire.parse(buf, strict=False)
        except wire.WireError:
            o.frames = []
    return o


def call(conn, method, *args, **kw):
    """Invoke a public method; drain and parse the output afterwards."""
    o = Obs()
    try:
        o.ret = getattr(conn, method)(*args, **kw)
    except Exception as e:  # noqa: BLE001 - the exception type IS the observation
        _fill_exc(o, e)
    drain(conn, o, strip_preface=(method in ("initiate_connection",
                                              "initiate_upgrade_connection")))
    return o


def recv(conn, data):
    o = Obs()
    try:
        o.events = conn.receive_data(data)
        o.ret = o.events
    except Exception as e:  # noqa: BLE001
        _fill_exc(o, e)
    drain(conn, o)
    return o


def recv_frames(conn, frames):
    return recv(conn, wire.ser(frames))


# ------------------------------------------------------------ peer HPACK

class Peer:
    """The scripted peer's compressor state (hpack is not code under test)."""

    def __init__(self):
        self.enc = hpack.Encoder()
        self.dec = hpack.Decoder()
        self.dec.max_header_list_size = 0  # unlimited for the checker

    def encode(self, headers, huffman=False):
        return self.enc.encode(headers, huffman=huffman)

    def decode(self, block):
        """-> list of (name, value, never_indexed)"""
        out = []
        for h in self.dec.decode(block, raw=True):
            out.append((bytes(h[0]), bytes(h[1]), not getattr(h, "indexable", True)))
        return out


def ni(headers):
    """Header list as never-indexed literals: encoding it never touches an
    HPACK dynamic table (keeps state spaces finite where compression state is
    irrelevant to the property)."""
    return [NeverIndexedHeaderTuple(n, v) for n, v in headers]


def stateless_block(headers):
    """Encode with a throw-away encoder, never-indexed: a header block that
    can be decoded at any time without changing the decoder's table."""
    return hpack.Encoder().encode(ni(headers), huffman=False)


REQ = [(b":method", b"GET"), (b":scheme", b"https"), (b":path", b"/"),
       (b":authority", b"example.com")]
REQ_POST = [(b":method", b"POST"), (b":scheme", b"https"), (b":path", b"/"),
            (b":authority", b"example.com")]
RESP = [(b":status", b"200")]
INFO = [(b":status", b"100")]
TRAILERS = [(b"x-trailer", b"1")]

# server handshake helper -------------------------------------------------

def handshake_server(conn, settings_pairs=()):
    """initiate + feed client preface + SETTINGS; drain."""
    conn.initiate_connection()
    conn.receive_data(wire.PREFACE + wire.settings(settings_pairs).serialize())
    conn.data_to_send()


def handshake_client(conn, settings_pairs=()):
    conn.initiate_connection()
    conn.receive_data(wire.settings(settings_pairs).serialize())
    conn.data_to_send()


def event_brief(e):
    d = {}
    for k, v in vars(e).items():
        if isinstance(v, h2.events.Event):
            d[k] = type(v).__name__
        else:
            d[k] = v
    return (type(e).__name__, d)
