"""Bind the harness to the h2 source tree under test.

Every check imports this first.  It puts <repo>/src at the front of sys.path
and asserts that the imported ``h2`` really comes from there, so that a check
always exercises the *current working tree* of /repo (nothing is built or
installed; h2 is pure Python).  VERIF_H2_SRC=<dir> is a developer-only
override used to test mutants in scratch copies.
"""
import os
import sys

REPO_SRC = os.environ.get("VERIF_H2_SRC") or "/repo/src"
VERIF_DIR = os.path.dirname(os.path.dirname(os.path.abspath(__file__)))

if sys.path[0] != REPO_SRC:
    sys.path.insert(0, REPO_SRC)
for _m in [m for m in sys.modules if m == "h2" or m.startswith("h2.")]:
    del sys.modules[_m]

import h2  # noqa: E402

_h2file = os.path.realpath(h2.__file__)
if not _h2file.startswith(os.path.realpath(REPO_SRC) + os.sep):
    raise SystemExit(
        "internal error: h2 imported from %s, expected under %s"
        % (_h2file, REPO_SRC))

SEED = int(os.environ.get("VERIF_SEED", "0") or 0)
